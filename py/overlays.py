"""Sanitizer overlays (S9), run after a silent thorough run of a Rust engine:
   miri : in-memory workloads of `vh overlay <id> <n>` under the UB / data-race interpreter
          (C01 C02 C04 C05 C06 C17; C07 and C14 with -Zmiri-many-seeds)
   tsan : the quick workloads of C07 C13 C14 C15 re-run with a ThreadSanitizer build of the harness
A sanitizer report is a violation of the property whose workload was running (witness = the report);
a sanitizer that cannot be built or times out makes the overlay inconclusive (recorded, not a verdict).
The overlay results are merged into the evidence file's coverage."""
import json
import os
import re
import subprocess
import time

import vlib

MIRI = {"C01": (60, None), "C04": (60, None), "C02": (80, None), "C05": (12, None), "C06": (120, None), "C17": (200, None), "C07": (6, "0..16"), "C14": (4, "0..32")}
TSAN = {"C07", "C13", "C14", "C15"}


def merge(pid, info):
    p = os.path.join(vlib.VERIF, "evidence", pid + ".json")
    try:
        d = json.load(open(p))
        d["coverage"].setdefault("overlays", {}).update(info)
        json.dump(d, open(p, "w"), indent=1)
    except Exception as e:  # noqa
        print("overlay: could not merge into evidence: %r" % e)


def violation(pid, kind, text):
    d = os.path.join(vlib.VERIF, "replays", pid)
    os.makedirs(d, exist_ok=True)
    path = os.path.join(d, "thorough-%s-overlay-%s.json" % (os.environ.get("VERIF_SEED", "1"), kind))
    json.dump({"property": pid, "sig": "%s:%s-report" % (pid.lower(), kind), "witness": {"engine": "overlay-" + kind, "report": text[-6000:]}}, open(path, "w"), indent=1)
    print("VIOLATION property=%s replay=%s" % (pid, path))
    print("  sig=%s:%s-report %s" % (pid.lower(), kind, text[-400:].replace("\n", " | ")))


def run_miri(pid):
    n, seeds = MIRI[pid]
    env = vlib.base_env()
    env["CARGO_TARGET_DIR"] = vlib.target_dir("miri")
    env["RUSTFLAGS"] = vlib.GUARD
    flags = "-Zmiri-disable-isolation"
    if seeds:
        flags += " -Zmiri-many-seeds=" + seeds
    env["MIRIFLAGS"] = flags
    cmd = ["cargo", "+nightly", "miri", "run", "--offline", "-q", "--manifest-path", os.path.join(vlib.VERIF, "harness", "Cargo.toml")] + vlib.paths_override() + ["--", "overlay", pid, str(n)]
    t0 = time.time()
    try:
        p = subprocess.run(cmd, env=env, stdout=subprocess.PIPE, stderr=subprocess.STDOUT, timeout=3600)
    except subprocess.TimeoutExpired:
        return {"miri": {"status": "inconclusive", "reason": "timeout"}}, 0
    out = p.stdout.decode("utf-8", "replace")
    runs = len(re.findall(r"^OVERLAY property=", out, re.M))
    cases = sum(int(x) for x in re.findall(r"^OVERLAY property=\S+ cases=(\d+)", out, re.M))
    info = {"miri": {"status": "clean", "runs": runs, "cases": cases, "seeds": seeds, "seconds": round(time.time() - t0, 1)}}
    if "OVERLAY-VIOLATION" in out or "Undefined Behavior" in out or "Data race detected" in out or (p.returncode != 0 and runs == 0 and "error: could not compile" not in out):
        if "error[E" in out or "could not compile" in out:
            info["miri"] = {"status": "inconclusive", "reason": "build failed", "tail": out[-600:]}
            return info, 0
        info["miri"]["status"] = "report"
        violation(pid, "miri", out)
        return info, 1
    if p.returncode != 0:
        info["miri"] = {"status": "inconclusive", "reason": "exit %d" % p.returncode, "tail": out[-600:]}
    return info, 0


def run_tsan(pid):
    vh = vlib.build_harness("tsan")
    if vh is None:
        return {"tsan": {"status": "inconclusive", "reason": "tsan build failed"}}, 0
    env = vlib.base_env()
    env["VH_NO_EVIDENCE"] = "1"
    env["VERIF_REPO"] = vlib.REPO
    env["TSAN_OPTIONS"] = "halt_on_error=1 exitcode=66 second_deadlock_stack=1"
    # the race detector has to see the server's threads: keep servers inside the monitored process
    env["VH_INPROCESS_SERVER"] = "1"
    t0 = time.time()
    try:
        p = subprocess.run([vh, pid, "quick"], env=env, stdout=subprocess.PIPE, stderr=subprocess.STDOUT, timeout=3600)
    except subprocess.TimeoutExpired:
        return {"tsan": {"status": "inconclusive", "reason": "timeout"}}, 0
    out = p.stdout.decode("utf-8", "replace")
    reports = out.count("WARNING: ThreadSanitizer")
    info = {"tsan": {"status": "clean", "reports": reports, "exit": p.returncode, "seconds": round(time.time() - t0, 1), "workload": "quick tier re-run with the ThreadSanitizer build"}}
    if reports or p.returncode == 66:
        info["tsan"]["status"] = "report"
        violation(pid, "tsan", out)
        return info, 1
    if p.returncode == 1:
        # the monitors themselves fired under the (slower, differently scheduled) TSan build
        info["tsan"]["status"] = "monitor-violation"
        print(out[-3000:])
        return info, 1
    if p.returncode != 0:
        info["tsan"]["status"] = "inconclusive"
        info["tsan"]["tail"] = out[-600:]
    return info, 0


def run_asan(pid):
    """re-run the quick tier of a process-level check with AddressSanitizer builds of the harness
    and of the repository's binaries; any ASan report (log file) is a violation witness"""
    import glob
    import shutil
    logdir = os.path.join(vlib.VERIF, "target", "asan-logs", pid)
    shutil.rmtree(logdir, ignore_errors=True)
    os.makedirs(logdir)
    env = dict(os.environ)
    env["VERIF_SANITIZER"] = "asan"
    env["VH_NO_EVIDENCE"] = "1"
    env["ASAN_OPTIONS"] = "log_path=%s/asan:halt_on_error=1:detect_leaks=0" % logdir
    t0 = time.time()
    try:
        p = subprocess.run([os.path.join(vlib.VERIF, "bin", "check"), pid, "quick"], env=env, stdout=subprocess.PIPE, stderr=subprocess.STDOUT, timeout=3600)
    except subprocess.TimeoutExpired:
        return {"asan": {"status": "inconclusive", "reason": "timeout"}}, 0
    out = p.stdout.decode("utf-8", "replace")
    logs = glob.glob(logdir + "/asan*")
    info = {"asan": {"status": "clean", "reports": len(logs), "exit": p.returncode, "seconds": round(time.time() - t0, 1), "workload": "quick tier re-run with AddressSanitizer builds"}}
    if logs:
        info["asan"]["status"] = "report"
        violation(pid, "asan", open(logs[0], errors="replace").read())
        return info, 1
    if p.returncode == 1:
        info["asan"]["status"] = "monitor-violation"
        print(out[-3000:])
        return info, 1
    if p.returncode != 0:
        info["asan"]["status"] = "inconclusive"
        info["asan"]["tail"] = out[-600:]
    return info, 0


ASAN = {"C16", "C18"}


def run(pid, tier):
    rc = 0
    info = {}
    if pid in ASAN:
        i, r = run_asan(pid)
        info.update(i)
        rc |= r
    if pid in MIRI:
        i, r = run_miri(pid)
        info.update(i)
        rc |= r
    if pid in TSAN:
        i, r = run_tsan(pid)
        info.update(i)
        rc |= r
    if info:
        merge(pid, info)
        print("[overlay] %s %s" % (pid, json.dumps(info)[:600]))
    return rc
