"""C16: all transports and address forms behave identically; socket activation contract."""
import json
import os
import shutil
import socket
import subprocess
import tempfile
import time

import vlib


def run_client(vh, mode, arg, seed, n, env=None, timeout=60, preexec=None, pass_fds=()):
    """returns (result dict or None, early dict or None, status string, extra)"""
    e = vlib.base_env()
    e["VH_PROCESS_SERVICE"] = "1"
    e["C16_HOLD"] = "1"
    if env:
        e.update(env)
    p = subprocess.Popen([vh, "c16client", mode, arg, str(seed), str(n)], stdout=subprocess.PIPE, stderr=subprocess.PIPE, env=e, preexec_fn=preexec, pass_fds=pass_fds, start_new_session=True)
    try:
        out, err = p.communicate(timeout=timeout)
    except subprocess.TimeoutExpired:
        bt = backtraces(p.pid)
        # kill the whole session: a forked-but-not-exec'ed child would keep our pipes open
        try:
            os.killpg(p.pid, 9)
        except OSError:
            pass
        try:
            out, err = p.communicate(timeout=10)
        except subprocess.TimeoutExpired:
            out, err = b"", b""
        return None, None, "hang", {"backtraces": bt, "stderr": err.decode("utf-8", "replace")[-1500:]}
    finally:
        try:
            os.killpg(p.pid, 9)
        except OSError:
            pass
    res = early = None
    for line in out.decode("utf-8", "replace").splitlines():
        if line.startswith("C16RESULT "):
            res = json.loads(line[10:])
        elif line.startswith("C16EARLY "):
            early = json.loads(line[9:])
    status = "ok" if p.returncode == 0 and res is not None else "exit-%s" % p.returncode
    return res, early, status, {"stderr": err.decode("utf-8", "replace")[-2000:]}


def children_of(pid):
    try:
        out = subprocess.run(["pgrep", "-P", str(pid)], stdout=subprocess.PIPE).stdout.decode().split()
        return [int(x) for x in out]
    except Exception:
        return []


def backtraces(pid):
    bts = {}
    for q in [pid] + children_of(pid):
        try:
            r = subprocess.run(["gdb", "-p", str(q), "-batch", "-ex", "thread apply all bt 12"], stdout=subprocess.PIPE, stderr=subprocess.DEVNULL, timeout=30)
            lines = [l for l in r.stdout.decode("utf-8", "replace").splitlines() if l.startswith("#") or l.startswith("Thread")]
            bts[str(q)] = lines[:40]
        except Exception as e:  # noqa
            bts[str(q)] = [repr(e)]
    return bts



class Served:
    def __init__(self, vh, address, env=None):
        e = vlib.base_env()
        e["VH_PROCESS_SERVICE"] = "1"
        if env:
            e.update(env)
        self.p = subprocess.Popen([vh, "serve", address], env=e, stdout=subprocess.DEVNULL, stderr=subprocess.DEVNULL)
        self.address = address

    def wait_ready(self):
        t0 = time.time()
        while time.time() - t0 < 10:
            if self.p.poll() is not None:
                return False
            if connectable(self.address):
                return True
            time.sleep(0.01)
        return False

    def stop(self):
        self.p.kill()
        self.p.wait()


def connectable(address):
    try:
        s = connect(address)
        s.close()
        return True
    except OSError:
        return False


def connect(address):
    if address.startswith("tcp:"):
        h, p = address[4:].rsplit(":", 1)
        s = socket.create_connection((h, int(p)), timeout=5)
        return s
    a = address[5:].split(";")[0]
    s = socket.socket(socket.AF_UNIX, socket.SOCK_STREAM)
    s.settimeout(5)
    s.connect("\0" + a[1:] if a.startswith("@") else a)
    return s


def getinfo(address, timeout=5.0):
    s = connect(address)
    s.settimeout(timeout)
    s.sendall(b'{"method":"org.varlink.service.GetInfo"}\0')
    buf = b""
    while b"\0" not in buf:
        d = s.recv(65536)
        if not d:
            break
        buf += d
    s.close()
    return json.loads(buf.split(b"\0")[0].decode()) if buf else None


def free_port():
    s = socket.socket()
    s.bind(("127.0.0.1", 0))
    p = s.getsockname()[1]
    s.close()
    return p


def main(tier, replay):
    ctx = vlib.Ctx("C16", tier, "exploration")
    ctx.rule = ("request sequences of the C01 alphabet (lengths 1..12, 20 kinds, flags) through 8 ways of reaching the same service: in-memory reference, unix path, unix path;mode=, abstract unix, TCP by numeric address and by host name, Connection::with_activate(cmd), "
                "Connection::with_bridge(cmd); activation self-report of the spawned service cross-checked with /proc; server-side environment matrix LISTEN_FDS x LISTEN_PID x LISTEN_FDNAMES observed by which socket answers; "
                "address strings from a scheme/garbage generator through varlink_connect, Connection::with_address and Listener::new; distinct = (transport, sequence) / matrix row / address string; non-trivial = sequence with >=2 requests, any matrix row, any address")
    ctx.assumptions.append("each constructor runs in a child process under a 30 s watchdog; a hang is reported with gdb backtraces of the stuck processes")
    vh = vlib.build_harness("hooks")
    if vh is None:
        print("INCONCLUSIVE property=C16 reason=harness build failed")
        return 2
    if replay:
        print("C16 witnesses name the transport and sequence; re-run `bin/check C16 quick` (deterministic for a seed)")
        return 0
    seed = ctx.seed
    nseq = 40 if tier == "quick" else 400
    tmp = tempfile.mkdtemp(prefix="c16-", dir=os.path.join(vlib.VERIF, "target"))
    servers = []
    try:
        ref, _, st, extra = run_client(vh, "memory", "x", seed, nseq)
        if ref is None:
            print("INCONCLUSIVE property=C16 reason=reference run failed (%s) %s" % (st, extra))
            return 2
        transports = []
        for name, addr in [("unix-path", "unix:%s/s1" % tmp), ("unix-path-mode", "unix:%s/s2;mode=0600" % tmp), ("unix-abstract", "unix:@verif-c16-%d" % os.getpid()), ("tcp", "tcp:127.0.0.1:%d" % free_port())]:
            sv = Served(vh, addr)
            servers.append(sv)
            if not sv.wait_ready():
                ctx.violation("c16:server-does-not-listen:%s" % name, {"engine": "c16", "address": addr, "message": "vh serve did not start listening on this address form"})
                continue
            transports.append((name, "address", addr))
        # the same TCP service addressed by host name instead of a numeric address
        tcp_port = [a for (n, m, a) in transports if n == "tcp"]
        if tcp_port:
            try:
                socket.getaddrinfo("localhost", None, socket.AF_INET)
                transports.append(("tcp-hostname", "address", "tcp:localhost:" + tcp_port[0].rsplit(":", 1)[1]))
            except OSError:
                ctx.count("skipped_unspecified")
        transports.append(("with_activate", "activate", "%s serve $VARLINK_ADDRESS" % vh))
        transports.append(("with_bridge", "bridge", "%s stdio" % vh))
        for name, mode, arg in transports:
            res, early, st, extra = run_client(vh, mode, arg, seed, nseq, timeout=30 + nseq)
            ctx.count("transport_runs")
            if st == "hang":
                ctx.case((name, "hang"))
                ctx.violation("c16:%s:constructor-or-session-hangs" % name, {"engine": "c16", "transport": name, "arg": arg, "message": "no result within the watchdog", "detail": extra})
                continue
            if res is None:
                ctx.case((name, st))
                sig = "aborts" if st in ("exit--6", "exit-134") else "fails"
                ctx.violation("c16:%s:client-process-%s" % (name, sig), {"engine": "c16", "transport": name, "arg": arg, "status": st, "detail": extra})
                continue
            for i, (a, b) in enumerate(zip(ref["results"], res["results"])):
                ctx.case((name, i) if len(ref["sequences"][i]) >= 2 else None)
                ctx.count("sequences_compared")
                ctx.count("reply_frames_observed", len(b.get("frames") or []))
                if b.get("error"):
                    ctx.violation("c16:%s:connection-fails" % name, {"engine": "c16", "transport": name, "sequence": ref["sequences"][i], "message": b["error"]})
                    break
                # a close after the last reply is visible only on sockets (the in-memory run ends
                # when its input ends): compare the frames, and 'closed' only when the reference closed
                if a["frames"] != b["frames"] or (a["closed"] and not b["closed"]):
                    ctx.violation("c16:%s:reply-sequence-differs" % name, {"engine": "c16", "transport": name, "sequence": ref["sequences"][i], "reference": a, "observed": b})
                    break
            if len(ctx.samples) < 8:
                ctx.sample({"transport": name, "sequence": ref["sequences"][min(7, nseq - 1)], "frames": res["results"][min(7, nseq - 1)].get("frames")})
            if mode == "activate":
                check_activation(ctx, res, early, name)
        # the two filesystem address forms must also agree when the path is not fresh: a socket
        # file nobody listens on (what a killed service leaves behind), and a live service's path
        # taken over by a second instance after the first was killed
        for state in ("stale-socket-file", "left-by-killed-instance"):
            outcomes = {}
            for name, suffix in (("unix-path", ""), ("unix-path-mode", ";mode=0600")):
                path = "%s/%s-%s" % (tmp, state, name)
                addr = "unix:%s%s" % (path, suffix)
                if state == "stale-socket-file":
                    s0 = socket.socket(socket.AF_UNIX, socket.SOCK_STREAM)
                    s0.bind(path)
                    s0.close()
                else:
                    first = Served(vh, addr)
                    if not first.wait_ready():
                        outcomes[name] = "first instance does not listen"
                        first.stop()
                        continue
                    first.p.kill()
                    first.p.wait()
                sv = Served(vh, addr)
                servers.append(sv)
                if not sv.wait_ready():
                    outcomes[name] = "does not listen"
                    continue
                res, early, st, extra = run_client(vh, "address", addr, seed, 3, timeout=30)
                if res is None:
                    outcomes[name] = "client %s" % st
                else:
                    same = all((not b.get("error")) and a["frames"] == b["frames"] for a, b in zip(ref["results"], res["results"]))
                    outcomes[name] = "serves" if same else "replies differ: %s" % json.dumps(res["results"])[:300]
                ctx.count("reply_frames_observed", sum(len(b.get("frames") or []) for b in (res or {}).get("results", [])))
            ctx.case(("path-state", state))
            ctx.count("path_state_comparisons")
            if outcomes.get("unix-path") != outcomes.get("unix-path-mode"):
                ctx.violation("c16:unix-path-mode:differs-from-plain-path-on-%s" % state, {"engine": "c16", "state": state, "outcomes": outcomes,
                              "message": "the same filesystem path behaves differently with and without ';' parameters"})
        # activation from a parent whose descriptor 3 is free / occupied
        for variant in ("fd3-occupied",):
            r, w = os.pipe()

            def pre(r=r):
                os.dup2(r, 3)

            res, early, st, extra = run_client(vh, "activate", "%s serve $VARLINK_ADDRESS" % vh, seed, 3, preexec=pre, pass_fds=(3,), timeout=30)
            os.close(r)
            os.close(w)
            ctx.case(("activate", variant))
            if st == "hang":
                ctx.violation("c16:with_activate:constructor-or-session-hangs", {"engine": "c16", "variant": variant, "detail": extra})
            elif res is None:
                ctx.violation("c16:with_activate:client-process-fails", {"engine": "c16", "variant": variant, "status": st, "detail": extra})
            else:
                check_activation(ctx, res, early, "with_activate/" + variant)
                for i, (a, b) in enumerate(zip(ref["results"], res["results"])):
                    if b.get("error") or a["frames"] != b["frames"]:
                        ctx.violation("c16:with_activate:reply-sequence-differs", {"engine": "c16", "variant": variant, "sequence": ref["sequences"][i], "reference": a, "observed": b})
                        break
        # activation from a process whose temporary directory has blanks and shell-special
        # characters in its name: the activation socket lives there, and its address reaches the
        # service through the environment, not through a shell's parsing
        odd = os.path.join(tmp, "a b$c'd")
        os.makedirs(odd, exist_ok=True)
        res, early, st, extra = run_client(vh, "activate", '%s serve "$VARLINK_ADDRESS"' % vh, seed, 3, env={"TMPDIR": odd}, timeout=30)
        ctx.case(("activate", "odd-tmpdir"))
        if st == "hang":
            ctx.violation("c16:with_activate:constructor-or-session-hangs", {"engine": "c16", "variant": "odd-tmpdir", "TMPDIR": odd, "detail": extra})
        elif res is None:
            ctx.violation("c16:with_activate:client-process-fails", {"engine": "c16", "variant": "odd-tmpdir", "TMPDIR": odd, "status": st, "detail": extra})
        else:
            check_activation(ctx, res, early, "with_activate/odd-tmpdir")
            for i, (a, b) in enumerate(zip(ref["results"], res["results"])):
                if b.get("error") or a["frames"] != b["frames"]:
                    ctx.violation("c16:with_activate:reply-sequence-differs", {"engine": "c16", "variant": "odd-tmpdir", "TMPDIR": odd, "sequence": ref["sequences"][i], "reference": a, "observed": b})
                    break
        # a service that is not there: a path nobody listens on is an error at once; an
        # activation command that cannot be started, exits at once or exits before it accepts
        # must be an error too (the listening socket is the service's, nobody else holds it) -
        # never a call that waits for ever. Judged after a repetition only.
        gone_ref, _, gst, _ = run_client(vh, "address", "unix:%s/nobody-listens" % tmp, seed, 1, timeout=30)
        for gi, cmd in enumerate(["/nonexistent/verif-cmd $VARLINK_ADDRESS", "true", "sleep 0.2", "exit 3"]):
            hung = 0
            res = None
            for attempt in range(2):
                res, early, st, extra = run_client(vh, "activate", cmd, seed, 1, timeout=20)
                if st != "hang":
                    break
                hung += 1
            ctx.case(("activate-gone", cmd))
            ctx.count("activation_commands_that_never_serve", 1)
            if hung == 2:
                ctx.violation("c16:with_activate:client-hangs-when-the-service-is-gone", {"engine": "c16", "command": cmd, "detail": extra,
                              "message": "the client waited more than 20 s (twice) for a socket-activated service whose command %r never serves; the same call to a unix path nobody listens on gives %r" % (cmd, (gone_ref or {}).get("results"))})
            elif hung == 1:
                ctx.inconc({"activate-gone": cmd, "why": "hung once, not when repeated"})
            elif res is not None and any(not r.get("error") and r.get("frames") for r in res["results"]):
                ctx.violation("c16:with_activate:replies-from-a-service-that-is-gone", {"engine": "c16", "command": cmd, "observed": res["results"]})
        t1 = time.time()
        env_matrix(ctx, vh, tmp, tier)
        t2 = time.time()
        addresses(ctx, vh, tier)
        addresses(ctx, vh, tier, activated=True, tmp=tmp)
        ctx.extra["phase_seconds"] = {"transports": round(t1 - ctx.t0, 1), "env_matrix": round(t2 - t1, 1), "addresses": round(time.time() - t2, 1)}
        return ctx.finish(60 if tier == "quick" else 1000)
    finally:
        for sv in servers:
            sv.stop()
        shutil.rmtree(tmp, ignore_errors=True)


def check_activation(ctx, res, early, name):
    rep = (res.get("report") or {}).get("parameters") if res else None
    wit = {"engine": "c16", "transport": name, "report": res.get("report") if res else None, "client_address": res.get("address") if res else None, "child_pid": res.get("child_pid") if res else None}
    ctx.case(("activation-report", name))
    if not rep:
        ctx.violation("c16:activation:no-self-report", dict(wit, message="the activated service did not answer org.verif.env.Report"))
        return
    env = rep.get("env", {})
    probs = []
    if not rep.get("fd3_listening"):
        probs.append("descriptor 3 is not a listening socket in the service (fd3 -> %r)" % rep.get("fd3_path"))
    if env.get("LISTEN_FDS") != "1":
        probs.append("LISTEN_FDS=%r" % env.get("LISTEN_FDS"))
    if env.get("LISTEN_FDNAMES") != "varlink":
        probs.append("LISTEN_FDNAMES=%r" % env.get("LISTEN_FDNAMES"))
    if env.get("LISTEN_PID") != str(rep.get("pid")):
        probs.append("LISTEN_PID=%r but the service's pid is %r" % (env.get("LISTEN_PID"), rep.get("pid")))
    if env.get("VARLINK_ADDRESS") != res.get("address"):
        probs.append("VARLINK_ADDRESS=%r but the client connected to %r" % (env.get("VARLINK_ADDRESS"), res.get("address")))
    if res.get("child_pid") is not None and rep.get("pid") != res.get("child_pid"):
        probs.append("service pid %r is not the spawned child %r" % (rep.get("pid"), res.get("child_pid")))
    if probs:
        ctx.violation("c16:activation:contract-violated", dict(wit, message="; ".join(probs)))
    else:
        ctx.count("activation_contract_checks_passed")


def env_matrix(ctx, vh, tmp, tier):
    """server side: activation honoured iff LISTEN_PID names the process and LISTEN_FDS >= 1"""
    rows = []
    for fds in (None, "0", "1", "3", "x"):
        for pid in (None, "wrong", "right", "garbage"):
            for names in (None, "varlink", "a:varlink:b", "x:y"):
                rows.append((fds, pid, names))
    if tier == "quick":
        rows = [r for i, r in enumerate(rows) if i % 2 == 0 or r[1] == "right"]
    for ri, (fds, pid, names) in enumerate(rows):
        # three listening sockets for descriptors 3,4,5; the server's own address is a fourth
        socks = []
        paths = []
        for k in range(3):
            p = os.path.join(tmp, "act%d-%d" % (ri, k))
            s = socket.socket(socket.AF_UNIX, socket.SOCK_STREAM)
            s.bind(p)
            s.listen(8)
            # every other row hands over NON-BLOCKING listening sockets, as an event-loop based
            # activator does (the flag lives in the open file description and is inherited)
            if ri % 2 == 1:
                s.setblocking(False)
            socks.append(s)
            paths.append(p)
        own = os.path.join(tmp, "own%d" % ri)
        envs = []
        if fds is not None:
            envs.append("LISTEN_FDS=%s" % fds)
        if names is not None:
            envs.append("LISTEN_FDNAMES=%s" % names)
        if pid == "right":
            envs.append("LISTEN_PID=$$")
        elif pid == "wrong":
            envs.append("LISTEN_PID=1")
        elif pid == "garbage":
            envs.append("LISTEN_PID=abc")
        cmd = "%s exec %s serve unix:%s" % (" ".join(envs), vh, own)
        fdl = [s.fileno() for s in socks]

        def pre(fdl=fdl):
            # move the three sockets to 3,4,5 (first to high numbers to avoid clobbering)
            hi = [os.dup(f) for f in fdl]
            for k, h in enumerate(hi):
                os.dup2(h, 3 + k)
                os.set_inheritable(3 + k, True)

        e = vlib.base_env()
        e["VH_PROCESS_SERVICE"] = "1"
        for k in ("LISTEN_FDS", "LISTEN_PID", "LISTEN_FDNAMES"):
            e.pop(k, None)
        p = subprocess.Popen(["sh", "-c", cmd], env=e, preexec_fn=pre, close_fds=False, stdout=subprocess.DEVNULL, stderr=subprocess.DEVNULL)
        for s in socks:
            s.close()
        # expectation
        honoured_fd = None
        if pid == "right" and fds in ("1", "3"):
            if fds == "1":
                honoured_fd = 0
            elif names and "varlink" in names.split(":"):
                honoured_fd = names.split(":").index("varlink")
        # observe which socket answers
        answered = None
        t0 = time.time()
        while time.time() - t0 < 10 and answered is None:
            if p.poll() is not None:
                break
            for k, path in [(3, own)] + list(enumerate(paths)):
                try:
                    # an inherited but unserved listening socket accepts the connection in its
                    # backlog and never answers: probe with a short timeout
                    r = getinfo("unix:" + path, timeout=0.25)
                    if r and "parameters" in r:
                        answered = k
                        break
                except (OSError, ValueError):
                    pass
            time.sleep(0.02)
        # a service keeps serving: a second, later connection to the socket that answered
        later_ok = None
        if answered is not None:
            time.sleep(0.05)
            apath = own if answered == 3 else paths[answered]
            later_ok = False
            for _ in range(3):
                try:
                    r2 = getinfo("unix:" + apath, timeout=2.0)
                    if r2 and "parameters" in r2:
                        later_ok = True
                        break
                except (OSError, ValueError):
                    pass
                time.sleep(0.1)
        p.kill()
        p.wait()
        ctx.case(("env-matrix", fds, pid, names))
        ctx.count("env_matrix_rows")
        wit = {"engine": "c16", "LISTEN_FDS": fds, "LISTEN_PID": pid, "LISTEN_FDNAMES": names, "activated_sockets_nonblocking": ri % 2 == 1, "answered_on": ("fd %d" % (3 + answered) if answered is not None and answered < 3 else ("own address" if answered == 3 else None)), "exit": p.returncode}
        if later_ok is False:
            ctx.violation("c16:service-stops-answering-after-its-first-connection", dict(wit, message="the socket that answered the first connection did not answer a second one (3 attempts, 2 s each); service exit status %r" % p.returncode))
        if pid != "right" or fds in (None, "0", "x"):
            # must not honour activation
            if answered is not None and answered < 3:
                ctx.violation("c16:server-honours-activation-not-meant-for-it", dict(wit, message="activation honoured although LISTEN_PID does not name the process / LISTEN_FDS is not >= 1"))
            elif answered is None:
                ctx.violation("c16:server-without-activation-does-not-listen", dict(wit, message="the server answered neither on its own address nor on an inherited descriptor"))
        elif honoured_fd is not None:
            if answered != honoured_fd:
                ctx.violation("c16:server-ignores-activation", dict(wit, message="expected the server to serve descriptor %d" % (3 + honoured_fd)))
        else:
            # several descriptors but none named varlink: statement silent on the fallback
            ctx.count("skipped_unspecified")
        for path in paths + [own]:
            try:
                os.unlink(path)
            except OSError:
                pass


def addresses(ctx, vh, tier, activated=False, tmp=None):
    n = 2000 if tier == "quick" else 200000
    if not activated:
        p = subprocess.run([vh, "c16addr", str(ctx.seed), str(n)], stdout=subprocess.PIPE, stderr=subprocess.PIPE, env=vlib.base_env(), timeout=600)
    else:
        # the same address strings handed to a process that IS socket-activated (descriptor 3 is a
        # listening socket, LISTEN_FDS=1, LISTEN_PID names it): an unsupported scheme is still
        # an invalid address, activation or not
        n = min(n, 400)
        path = os.path.join(tmp, "act-addr")
        ls = socket.socket(socket.AF_UNIX, socket.SOCK_STREAM)
        ls.bind(path)
        ls.listen(8)
        fd = ls.fileno()

        def pre(fd=fd):
            h = os.dup(fd)
            os.dup2(h, 3)
            os.set_inheritable(3, True)

        e = vlib.base_env()
        for k in ("LISTEN_FDS", "LISTEN_PID", "LISTEN_FDNAMES"):
            e.pop(k, None)
        p = subprocess.run(["sh", "-c", "LISTEN_FDS=1 LISTEN_PID=$$ exec %s c16addr %d %d" % (vh, ctx.seed, n)], stdout=subprocess.PIPE, stderr=subprocess.PIPE, env=e, preexec_fn=pre, close_fds=False, timeout=600)
        ls.close()
    rows = None
    for line in p.stdout.decode("utf-8", "replace").splitlines():
        if line.startswith("C16ADDR "):
            rows = json.loads(line[8:])
    if rows is None:
        ctx.violation("c16:address-check-crashed", {"engine": "c16", "exit": p.returncode, "stderr": p.stderr.decode("utf-8", "replace")[-1500:]})
        return
    seen = set()
    for r in rows:
        ctx.case(("address", r["address"], activated))
        for k in ("varlink_connect", "with_address", "listener_new"):
            if r[k] != "InvalidAddress":
                sig = "c16:unsupported-scheme-not-rejected:%s%s" % (k, ":under-activation" if activated else "")
                if sig not in seen or len(seen) < 5:
                    ctx.violation(sig, {"engine": "c16", "address": r["address"], "result": r})
                seen.add(sig)
    ctx.count("address_strings_checked_under_activation" if activated else "address_strings_checked", len(rows))
    if not activated:
        ctx.sample({"address_strings": [r["address"] for r in rows[:12]]})
