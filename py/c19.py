"""C19: the certification service never lets a deviating step pass (fault enumeration against
the real varlink-certification binary)."""
import copy
import json
import math
import os
import shutil
import socket
import subprocess
import tempfile
import threading
import time

import vlib

IFACE = "org.varlink.certification."
STEPS = ["Start", "Test01", "Test02", "Test03", "Test04", "Test05", "Test06", "Test07", "Test08", "Test09", "Test10", "Test11", "End"]
MODE = {"Test10": "more", "Test11": "oneway"}


class Conn:
    def __init__(self, path):
        self.s = socket.socket(socket.AF_UNIX, socket.SOCK_STREAM)
        self.s.settimeout(10)
        self.s.connect(path)
        self.buf = b""
        self.eof = False

    def send(self, obj):
        self.s.sendall(json.dumps(obj).encode() + b"\0")

    def frame(self):
        """next frame as object, None on EOF; raises socket.timeout"""
        while b"\0" not in self.buf:
            if self.eof:
                return None
            try:
                d = self.s.recv(65536)
            except ConnectionResetError:
                d = b""
            if not d:
                self.eof = True
                return None
            self.buf += d
        f, self.buf = self.buf.split(b"\0", 1)
        return json.loads(f.decode())

    def close(self):
        try:
            self.s.close()
        except OSError:
            pass


def request(step, cid, prev):
    """canonical request for `step`, built from the previous reply like the reference client"""
    m = IFACE + step
    r = {"method": m}
    if step == "Start":
        return r
    p = {"client_id": cid}
    if step == "Test02":
        p["bool"] = prev["bool"]
    elif step == "Test03":
        p["int"] = prev["int"]
    elif step == "Test04":
        p["float"] = prev["float"]
    elif step == "Test05":
        p["string"] = prev["string"]
    elif step == "Test06":
        for k in ("bool", "int", "float", "string"):
            p[k] = prev[k]
    elif step == "Test07":
        p["struct"] = prev["struct"]
    elif step == "Test08":
        p["map"] = prev["map"]
    elif step == "Test09":
        p["set"] = prev["set"]
    elif step == "Test10":
        p["mytype"] = prev["mytype"]
    elif step == "Test11":
        p["last_more_replies"] = prev["__more__"]
    r["parameters"] = p
    if MODE.get(step) == "more":
        r["more"] = True
    if MODE.get(step) == "oneway":
        r["oneway"] = True
    return r


def run_canonical(conn, upto, log=None):
    """Runs Start..STEPS[upto-1] canonically. Returns (client_id, reply parameters of the last
    step (with __more__ for Test10), error string or None)."""
    cid = None
    prev = {}
    for i in range(upto):
        step = STEPS[i]
        req = request(step, cid, prev)
        conn.send(req)
        if log is not None:
            log.append(("send", step))
        if step == "Test11":
            prev = {}
            continue
        replies = []
        while True:
            f = conn.frame()
            if f is None:
                return cid, prev, "EOF during canonical step %s" % step
            if "error" in f and f["error"]:
                return cid, prev, "canonical step %s answered %s" % (step, json.dumps(f))
            replies.append(f.get("parameters") or {})
            if not f.get("continues"):
                break
        prev = replies[-1]
        if step == "Start":
            cid = prev.get("client_id")
        if step == "Test10":
            prev = {"__more__": [r["string"] for r in replies]}
    return cid, prev, None


# ------------------------------------------------------------------ mutations

# declaration order of the struct types in org.varlink.certification.varlink
FIELD_ORDER = {
    "struct": ["first", "second"],
    "anon": ["foo", "bar"],
    "interface": ["foo", "anon"],
    "mytype": ["object", "enum", "struct", "array", "dictionary", "stringset", "nullable", "nullable_array_struct", "interface"],
}
FIELD_ORDER_TEST07 = ["bool", "int", "float", "string"]

OTHER = {"null": None, "bool": True, "number": 7, "string": "zz", "array": [], "object": {}}


def jtype(v):
    if v is None:
        return "null"
    if isinstance(v, bool):
        return "bool"
    if isinstance(v, (int, float)):
        return "number"
    if isinstance(v, str):
        return "string"
    if isinstance(v, list):
        return "array"
    return "object"


def paths(v, pre=()):
    yield pre, v
    if isinstance(v, dict):
        for k in v:
            yield from paths(v[k], pre + (k,))
    elif isinstance(v, list):
        for i, x in enumerate(v):
            yield from paths(x, pre + (i,))


def get(v, path):
    for k in path:
        v = v[k]
    return v


def setp(root, path, val):
    if not path:
        return val
    root = copy.deepcopy(root)
    cur = root
    for k in path[:-1]:
        cur = cur[k]
    cur[path[-1]] = val
    return root


def delp(root, path):
    root = copy.deepcopy(root)
    cur = root
    for k in path[:-1]:
        cur = cur[k]
    del cur[path[-1]]
    return root


def mutations(params):
    """yield (kind, path, mutated params) for every single deviation of the parameter tree"""
    for path, v in paths(params):
        if not path:
            continue
        t = jtype(v)
        # same type, different value
        if t == "bool":
            yield "changed", path, setp(params, path, not v)
        elif t == "number":
            yield "changed", path, setp(params, path, v + 1)
            if isinstance(v, float):
                yield "changed", path, setp(params, path, v * 1.0000001 + 1e-9)
                # near misses: the neighbouring floating-point numbers, and the value printed with
                # fewer digits (a different number is a different value, however close)
                near = [math.nextafter(v, math.inf), math.nextafter(v, -math.inf), v + 2e-13, v - 2e-13, float("%.15g" % v), float("%.12g" % v)]
                seen = set()
                for nv in near:
                    if nv != v and nv not in seen:
                        seen.add(nv)
                        yield "changed-nearby-float", path, setp(params, path, nv)
        elif t == "string":
            yield "changed", path, setp(params, path, v + "x")
            yield "changed", path, setp(params, path, "")
            if path[-1] == "enum" or (len(path) >= 2 and path[-2] != "dictionary" and v in ("foo", "bar", "baz", "one", "two", "three") and isinstance(get(params, path[:-1]), dict) and path[0] == "mytype" and "interface" in path):
                for alt in ("one", "three", "foo", "baz"):
                    if alt != v:
                        yield "changed-enum", path, setp(params, path, alt)
        # other JSON types
        for ot, ov in OTHER.items():
            if ot == t:
                continue
            if t == "null" and ot == "null":
                continue
            # an empty object for a string-set entry stays an object: not a deviation
            yield "retyped-" + ot, path, setp(params, path, ov)
        # removal (a null-valued optional removed is not a deviation)
        parent = get(params, path[:-1])
        if isinstance(parent, dict) and v is not None:
            yield "removed", path, delp(params, path)
        if isinstance(parent, list):
            yield "element-removed", path, delp(params, path)
        # containers: add / duplicate
        if t == "array":
            yield "element-added", path, setp(params, path, v + (v[:1] if v else ["extra"]))
            if len(v) >= 2 and v[0] != v[1]:
                yield "elements-swapped", path, setp(params, path, [v[1], v[0]] + v[2:])
        if t == "object" and path[-1] in ("map", "set", "dictionary", "stringset"):
            nv = dict(v)
            nv["extra_key"] = {} if path[-1] in ("set", "stringset") else "Extra"
            yield "key-added", path, setp(params, path, nv)
        # struct written as positional array of its field values in declaration order
        if t == "object" and v:
            order = FIELD_ORDER_TEST07 if set(v.keys()) == set(FIELD_ORDER_TEST07) else FIELD_ORDER.get(path[-1])
            if order and set(order) >= set(v.keys()):
                yield "struct-as-array", path, setp(params, path, [v.get(f) for f in order])


def drop_nulls(v):
    """null-valued optional members are equivalent to absent ones"""
    if isinstance(v, dict):
        return {k: drop_nulls(x) for k, x in v.items() if x is not None}
    if isinstance(v, list):
        return [drop_nulls(x) for x in v]
    return v


def unpositional(m, c, key=None):
    """undo 'struct written as positional array' wherever the canonical value is an object"""
    if isinstance(c, dict) and isinstance(m, list):
        order = FIELD_ORDER_TEST07 if set(c.keys()) == set(FIELD_ORDER_TEST07) else FIELD_ORDER.get(key)
        if order and len(m) == len(order):
            m = {f: v for f, v in zip(order, m)}
    if isinstance(c, dict) and isinstance(m, dict):
        return {k: unpositional(v, c.get(k), k) for k, v in m.items()}
    if isinstance(c, list) and isinstance(m, list) and len(c) == len(m):
        return [unpositional(x, y, key) for x, y in zip(m, c)]
    return m


def flag_combos(step):
    canon = MODE.get(step)
    for more in (False, True):
        for oneway in (False, True):
            for upgrade in (False, True):
                if (more, oneway, upgrade) == (canon == "more", canon == "oneway", False):
                    continue
                yield {"more": more, "oneway": oneway, "upgrade": upgrade}


def apply_flags(req, flags):
    r = {k: v for k, v in req.items() if k not in ("more", "oneway", "upgrade")}
    for k, v in flags.items():
        if v:
            r[k] = True
    return r


GETINFO = {"method": "org.varlink.service.GetInfo"}
CANON = {}  # step name -> canonical request, filled by main()


def outcome(conn, req):
    """send a (deviating) request and classify what comes back:
    ('error', name) | ('success', frame) | ('nothing',) | ('eof',)"""
    conn.send(req)
    oneway = bool(req.get("oneway"))
    if oneway:
        try:
            conn.send(GETINFO)
        except OSError:
            # the service already closed the connection (failed validation of a oneway call):
            # whatever it wrote before closing is still readable below
            pass
    got = []
    while True:
        try:
            f = conn.frame()
        except socket.timeout:
            return ("timeout", got)
        if f is None:
            if got:
                return got[-1]
            # a oneway call may legitimately get nothing, including a closed connection
            return ("nothing",) if oneway else ("eof",)
        if oneway and f.get("parameters", {}).get("vendor") is not None and "interfaces" in f.get("parameters", {}):
            return ("nothing",) if not got else got[-1]
        if f.get("error"):
            got.append(("error", f["error"]))
            if not oneway:
                return got[-1]
        else:
            got.append(("success", f))
            if not f.get("continues") and not oneway:
                return got[-1]


class Server:
    def __init__(self, bindir, timeout=600):
        self.dir = tempfile.mkdtemp(prefix="c19-", dir=os.path.join(vlib.VERIF, "target"))
        self.path = os.path.join(self.dir, "s")
        self.p = subprocess.Popen([os.path.join(bindir, "varlink-certification"), "--varlink=unix:" + self.path, "--timeout=%d" % timeout], stdout=subprocess.DEVNULL, stderr=subprocess.DEVNULL)
        t0 = time.time()
        while not os.path.exists(self.path):
            if time.time() - t0 > 10 or self.p.poll() is not None:
                raise RuntimeError("certification server did not start")
            time.sleep(0.01)

    def stop(self):
        self.p.kill()
        self.p.wait()
        shutil.rmtree(self.dir, ignore_errors=True)


def main(tier, replay):
    ctx = vlib.Ctx("C19", tier, "fault_enumeration")
    ctx.rule = ("for a fresh client brought canonically to step k (13 steps Start..End): every single mutation of the canonical parameters (each leaf changed to another value of its type, retyped to each other JSON type, removed; "
                "containers retyped, elements added/removed/swapped, keys added, struct written as positional array), every non-canonical more/oneway/upgrade combination, every wrong position (also every step after End, on the same and on a new connection, and a whole second pass), unknown/empty/foreign client ids; "
                "thorough adds pairs of mutations; plus 1..16 concurrent canonical clients with interleaved steps; distinct = (step, mutation path, kind, flags); every case is a distinct fault")
    ctx.assumptions.append("canonical requests are derived by running the canonical flow (each reply feeds the next request), not copied from the server source")
    ctx.assumptions.append("negative controls that must still succeed: float written as integer, explicit false flags, added unknown members (except Start), null-valued optional members removed, extra members inside a string-set entry")
    bindir = vlib.build_repo_bins("debug", ["varlink-certification"])
    if bindir is None:
        print("INCONCLUSIVE property=C19 reason=repository binaries failed to build")
        return 2
    srv = Server(bindir)
    try:
        if replay:
            ctx.replay_mode = True
            w = json.load(open(replay))["witness"]
            if w.get("kind") == "replay-race":
                replay_race(ctx, srv, 20000)
                return ctx.finish(0)
            one_fault(ctx, srv, w["step"], w["request"], w.get("kind", "replay"), tuple(w.get("path", [])), id_mode=w.get("id_mode", "own"), replay=True)
            return ctx.finish(0)
        # canonical flow once: collect the canonical requests (constants of the protocol)
        c = Conn(srv.path)
        canon = {}
        cid, prev, err = None, {}, None
        for i, step in enumerate(STEPS):
            req = request(step, cid, prev)
            canon[step] = req
            CANON[step] = req
            c.send(req)
            if step == "Test11":
                prev = {}
                continue
            replies = []
            while True:
                f = c.frame()
                if f is None or f.get("error"):
                    ctx.violation("c19:canonical-sequence-fails", {"step": step, "reply": f})
                    return ctx.finish(1)
                replies.append(f.get("parameters") or {})
                if not f.get("continues"):
                    break
            prev = replies[-1]
            if step == "Start":
                cid = prev["client_id"]
            if step == "Test10":
                prev = {"__more__": [r["string"] for r in replies]}
        c.close()
        ctx.sample({"canonical_Test09_request": canon["Test09"]})
        ctx.sample({"canonical_Test10_mytype": canon["Test10"]["parameters"]["mytype"]})

        work = []  # (step index, kind, path, request-builder)
        for k, step in enumerate(STEPS):
            base = canon[step]
            if "parameters" in base:
                for kind, path, mp in mutations(base["parameters"]):
                    # a mutated client id stays as mutated (it is then an unknown/ill-typed id)
                    work.append((k, kind, path, dict(base, parameters=mp), "keep" if path[:1] == ("client_id",) else "own"))
                    # the same deviation wrapped in harmless noise: unknown members (accepted on
                    # their own, see the negative controls) in every object, named so that they
                    # sort before / after the real members
                    if path[:1] != ("client_id",) and kind != "key-added" and isinstance(mp, dict):
                        for nm in ("aaa_extra", "zzz_extra"):
                            work.append((k, kind + "+unknown-members-" + nm[:3], path, dict(base, parameters=with_extras(mp, nm)), "own"))
                # parameters missing / retyped as a whole
                r = {x: y for x, y in base.items() if x != "parameters"}
                work.append((k, "parameters-removed", (), r, "keep"))
                for ot, ov in OTHER.items():
                    if ot != "object":
                        work.append((k, "parameters-retyped-" + ot, (), dict(base, parameters=ov), "keep"))
            else:
                work.append((k, "start-with-parameters", (), dict(base, parameters={"x": 1}), "keep"))
                work.append((k, "start-with-parameters", (), dict(base, parameters=[1]), "keep"))
            for fl in flag_combos(step):
                work.append((k, "flags", tuple(sorted(x for x, y in fl.items() if y)), apply_flags(base, fl), "own"))
            # wrong position: at step k call every other step j with this client's id
            for j, other in enumerate(STEPS):
                if j != k and j != 0 and k != 0:
                    work.append((k, "wrong-position", (other,), canon[other], "own"))
            # a refused out-of-order call must leave the client where it was: right after step j was
            # refused, step j+1 (canonical in every respect) is out of order too
            for j, other in enumerate(STEPS):
                if k != 0 and j != 0 and j != k and j + 1 < len(STEPS) and j + 1 != k and STEPS[j] != "Test11":
                    work.append((k, "after-refused-step", (other, STEPS[j + 1]), canon[STEPS[j + 1]], "own-after:" + other))
            # client ids
            if k != 0:
                for bad in ("", "deadbeef", "0", None):
                    p = dict(base["parameters"])
                    p["client_id"] = bad if bad is not None else "?"
                    work.append((k, "client-id", (str(bad),), dict(base, parameters=p), "other" if bad is None else "keep"))
                # other spellings of the id this client was given: an id is a string, not a number
                for sp in ("upper", "lead0", "plus", "trail-space", "lead-space", "0x"):
                    work.append((k, "client-id-spelling", (sp,), base, "spell:" + sp))
        # negative controls (must succeed)
        neg = []
        for k, step in enumerate(STEPS):
            base = canon[step]
            neg.append((k, "neg-explicit-false-flags", dict(base, **{f: False for f in ("more", "oneway", "upgrade") if f not in base})))
            if step != "Start":
                p = dict(base["parameters"])
                p["unknown_member"] = [1, 2]
                neg.append((k, "neg-added-unknown-member", dict(base, parameters=p)))
        neg.append((4, "neg-float-as-integer", dict(canon["Test04"], parameters=dict(canon["Test04"]["parameters"], float=1))))
        mt = copy.deepcopy(canon["Test10"]["parameters"])
        mt["mytype"].pop("nullable", None)
        mt["mytype"].pop("nullable_array_struct", None)
        neg.append((10, "neg-null-optionals-removed", dict(canon["Test10"], parameters=mt)))
        mt = copy.deepcopy(canon["Test10"]["parameters"])
        mt["mytype"]["nullable"] = None
        neg.append((10, "neg-null-optionals-explicit", dict(canon["Test10"], parameters=mt)))
        st = copy.deepcopy(canon["Test09"]["parameters"])
        st["set"] = {k: {"x": 1} for k in st["set"]}
        neg.append((9, "neg-set-entry-with-extra-member", dict(canon["Test09"], parameters=st)))

        if tier == "thorough":
            # pairs of mutations on the larger parameter trees
            rng = vlib.Rng(ctx.seed)
            for k, step in enumerate(STEPS):
                base = canon[step]
                if "parameters" not in base:
                    continue
                ms = list(mutations(base["parameters"]))
                for _ in range(min(6000, len(ms) * 12)):
                    a = rng.pick(ms)
                    try:
                        second = list(mutations(a[2]))
                    except Exception:
                        continue
                    if not second:
                        continue
                    b = rng.pick(second)
                    if drop_nulls(b[2]) == drop_nulls(base["parameters"]):
                        # the second mutation undid the first: that is the canonical request again
                        continue
                    work.append((k, "pair:%s+%s" % (a[0], b[0]), a[1] + b[1], dict(base, parameters=b[2]), "keep" if ("client_id",) in (a[1][:1], b[1][:1]) else "own"))

        lock = threading.Lock()
        idx = [0]

        def worker():
            while True:
                with lock:
                    i = idx[0]
                    idx[0] += 1
                if i >= len(work):
                    return
                k, kind, path, req, id_mode = work[i]
                one_fault(ctx, srv, k, req, kind, path, id_mode=id_mode, lock=lock)

        ths = [threading.Thread(target=worker) for _ in range(12)]
        for t in ths:
            t.start()
        for t in ths:
            t.join()
        for k, kind, req in neg:
            negative(ctx, srv, k, req, kind)
        concurrent(ctx, srv, 8 if tier == "quick" else 200)
        after_end(ctx, srv)
        slow_clients(ctx, bindir, tier)
        replay_race(ctx, srv, 2500 if tier == "quick" else 40000)
        if srv.p.poll() is not None:
            ctx.violation("c19:server-died", {"status": srv.p.returncode})
        return ctx.finish(500 if tier == "quick" else 4000)
    finally:
        srv.stop()


def with_extras(v, name):
    """a copy of the parameters with an unknown member `name` in every object (not inside
    `map` / `set` / `stringset` / `dictionary`, whose members are data)"""
    if isinstance(v, dict):
        out = {}
        for k, x in v.items():
            out[k] = x if k in ("map", "set", "stringset", "dictionary") else with_extras(x, name)
        out[name] = 0
        return out
    if isinstance(v, list):
        return [with_extras(x, name) for x in v]
    return v


def one_fault(ctx, srv, k, req, kind, path, id_mode="own", lock=None, replay=False):
    lock = lock or threading.Lock()
    try:
        c = Conn(srv.path)
        cid, prev, err = run_canonical(c, k)
        if err:
            with lock:
                ctx.violation("c19:canonical-prefix-fails", {"step": STEPS[k], "error": err})
            c.close()
            return
        req = copy.deepcopy(req)
        p = req.get("parameters")
        if isinstance(p, dict) and "client_id" in p:
            if id_mode == "own":
                p["client_id"] = cid
            elif id_mode.startswith("own-after:"):
                p["client_id"] = cid
                first = copy.deepcopy(CANON[id_mode[10:]])
                first["parameters"]["client_id"] = cid
                o1 = outcome(c, first)
                if o1[0] != "error":
                    # the plain wrong-position deviation (reported by its own case) or a oneway
                    # step: nothing to conclude about the follow-up here
                    c.close()
                    return
            elif id_mode.startswith("spell:"):
                sp = id_mode[6:]
                v = {"upper": cid.upper(), "lead0": "0" + cid, "plus": "+" + cid, "trail-space": cid + " ", "lead-space": " " + cid, "0x": "0x" + cid}[sp]
                if v == cid:
                    c.close()
                    return
                p["client_id"] = v
            elif id_mode == "other":
                # a valid id of another client that is at a different step
                c2 = Conn(srv.path)
                other, _, _ = run_canonical(c2, 1 if k != 1 else 3)
                p["client_id"] = other
                c2.close()
        out = outcome(c, req)
        c.close()
    except (OSError, ValueError) as e:
        with lock:
            ctx.inconc({"step": STEPS[k], "kind": kind, "harness": repr(e)})
        return
    with lock:
        ctx.case((STEPS[k], kind, path, json.dumps(req.get("parameters"), sort_keys=True)[:200]))
        ctx.count("faults_" + kind.split(":")[0].split("-")[0])
        if replay:
            print("outcome:", out)
        wit = {"engine": "c19", "step": k, "step_name": STEPS[k], "kind": kind, "path": list(path), "request": req, "outcome": out, "id_mode": id_mode}
        if out[0] == "success":
            sig_kind = kind.split(":")[0]
            where = "set-entry" if any(x in ("set", "stringset") for x in path) else ("struct" if sig_kind == "struct-as-array" else "other")
            canon_p = CANON.get(STEPS[k], {}).get("parameters")
            mine = req.get("parameters")
            if isinstance(mine, dict) and isinstance(canon_p, dict):
                mine = dict(mine, client_id=canon_p.get("client_id"))
            only_positional = "struct-as-array" in kind and canon_p is not None and drop_nulls(unpositional(mine, canon_p)) == drop_nulls(canon_p)
            if sig_kind == "struct-as-array" or only_positional:
                ctx.violation("c19:deviation-passes:struct-written-as-positional-array", wit)
            else:
                ctx.violation("c19:deviation-passes:%s:%s:%s" % (STEPS[k], sig_kind, where), wit)
        elif out[0] == "eof" or (out[0] == "nothing" and not req.get("oneway")):
            ctx.violation("c19:no-reply:%s" % kind.split(":")[0], wit)
        elif out[0] == "timeout":
            ctx.inconc({"step": STEPS[k], "kind": kind, "why": "no reply within 10 s"})
        elif out[0] == "error":
            ctx.count("error_replies_observed")
            short = out[1].split(".")[-1]
            ctx.count("error_" + short)
        elif out[0] == "nothing":
            ctx.count("oneway_unanswered_observed")


def negative(ctx, srv, k, req, kind):
    c = Conn(srv.path)
    cid, prev, err = run_canonical(c, k)
    req = copy.deepcopy(req)
    if isinstance(req.get("parameters"), dict) and "client_id" in req["parameters"]:
        req["parameters"]["client_id"] = cid
    out = outcome(c, req)
    c.close()
    ctx.case(("neg", STEPS[k], kind))
    ctx.count("negative_controls")
    ok = out[0] == "success" or (out[0] == "nothing" and req.get("oneway"))
    if not ok:
        # not a property violation (the statement only forbids passing deviations), but it means
        # the harness' idea of "deviation" is off: report as inconclusive so that it is looked at
        ctx.inconc({"negative_control_failed": kind, "step": STEPS[k], "outcome": out})


def slow_clients(ctx, bindir, tier):
    """The canonical sequence succeeds for a client that takes its time, whatever idle timeout the
    service runs with (the idle timeout concerns a service nobody is connected to)."""
    for timeout, pauses in ((0, {3: 2.2}), (1, {1: 1.3, 6: 2.4}), (2, {8: 3.3})) if tier == "quick" else ((0, {3: 2.2, 9: 5.0}), (1, {1: 1.3, 6: 2.4}), (2, {8: 3.3}), (5, {2: 7.5})):
        try:
            srv = Server(bindir, timeout=timeout)
        except RuntimeError as e:
            ctx.inconc({"slow_clients": repr(e)})
            continue
        try:
            ok = 0
            for attempt in range(2):
                c = Conn(srv.path)
                c.s.settimeout(20)
                cid, prev, failed = None, {}, None
                for i, step in enumerate(STEPS):
                    if i in pauses:
                        time.sleep(pauses[i])
                    req = request(step, cid, prev)
                    c.send(req)
                    if step == "Test11":
                        prev = {}
                        continue
                    replies = []
                    while True:
                        f = c.frame()
                        if f is None or f.get("error"):
                            failed = (step, f)
                            break
                        replies.append(f.get("parameters") or {})
                        if not f.get("continues"):
                            break
                    if failed:
                        break
                    prev = replies[-1]
                    if step == "Start":
                        cid = prev.get("client_id")
                    if step == "Test10":
                        prev = {"__more__": [r["string"] for r in replies]}
                c.close()
                if not failed:
                    ok = 1
                    break
            ctx.case(("slow-client", timeout))
            ctx.count("slow_canonical_clients", 1)
            if not ok:
                ctx.violation("c19:canonical-sequence-fails:slow-client", {"engine": "c19", "kind": "slow-client", "service_idle_timeout": timeout, "pauses_before_step_s": {STEPS[k]: v for k, v in pauses.items()},
                              "message": "a canonical client that pauses between steps was refused at %s (twice): %s" % (failed[0], json.dumps(failed[1]))})
        except (OSError, ValueError, socket.timeout) as e:
            ctx.inconc({"slow_clients": repr(e), "timeout": timeout})
        finally:
            srv.stop()


def after_end(ctx, srv):
    """A client id that has run the whole sequence (End answered) is finished: every step sent
    under it afterwards is out of order - on the connection that ran the sequence, on a new
    one, once or as a whole second pass."""
    for j in range(1, len(STEPS)):
        for fresh_conn in (False, True):
            try:
                c = Conn(srv.path)
                cid, prev, err = run_canonical(c, len(STEPS))
                if err:
                    ctx.violation("c19:canonical-sequence-fails", {"engine": "c19", "error": err})
                    c.close()
                    return
                if fresh_conn:
                    c.close()
                    c = Conn(srv.path)
                req = copy.deepcopy(CANON[STEPS[j]])
                req["parameters"]["client_id"] = cid
                o = outcome(c, req)
                c.close()
            except (OSError, ValueError) as e:
                ctx.inconc({"after_end": repr(e)})
                continue
            ctx.case(("after-end", STEPS[j], fresh_conn))
            ctx.count("steps_sent_after_end", 1)
            if o[0] == "error":
                ctx.count("error_replies_observed", 1)
            if o[0] == "success" and STEPS[j] == "End":
                # the service keeps a finished client at "End expected": a repeated End is the
                # step it waits for, not a step out of order (reported, not judged)
                ctx.count("info_end_repeated_after_end_answered", 1)
            elif o[0] == "success":
                ctx.violation("c19:deviation-passes:%s:step-after-end" % STEPS[j], {"engine": "c19", "step_name": STEPS[j], "kind": "after-end", "request": req, "new_connection": fresh_conn,
                              "message": "a client id that had finished the sequence (End answered) got the success reply of %s" % STEPS[j], "reply": o[1]})
            elif o[0] == "timeout":
                ctx.inconc({"after_end": STEPS[j], "why": "no reply within the time limit"})
    # a whole second pass under the finished id
    try:
        c = Conn(srv.path)
        cid, prev, err = run_canonical(c, len(STEPS))
        passed = []
        prev = {}
        for j in range(1, len(STEPS) - 1):
            req = request(STEPS[j], cid, prev)
            o = outcome(c, req)
            if o[0] == "success":
                passed.append(STEPS[j])
                prev = o[1].get("parameters") or {}
            else:
                break
        c.close()
        ctx.case(("after-end", "second-pass"))
        if passed:
            ctx.violation("c19:deviation-passes:%s:step-after-end" % passed[0], {"engine": "c19", "kind": "after-end-second-pass", "steps_that_passed": passed,
                          "message": "a second pass under a finished client id was accepted for %d step(s)" % len(passed)})
    except (OSError, ValueError, KeyError, TypeError) as e:
        ctx.inconc({"after_end_second_pass": repr(e)})


def replay_race(ctx, srv, rounds):
    """One step sent under one client id on 8 connections at the same instant: only one of the
    eight is in sequence, the other seven are replays of a step that is already taken.  The eight
    connections are open and served (each by its own worker, parked in read) before the step
    is sent; one thread then writes the same pre-encoded bytes to all of them back to back, so
    that the service's workers wake within a few microseconds of each other."""
    n = 8
    c0 = None
    racers = []

    def fresh():
        c = Conn(srv.path)
        c.send(GETINFO)
        c.frame()
        return c

    for r in range(rounds):
        k = 1 + r % 3  # Test01..Test03
        try:
            if c0 is None:
                c0 = Conn(srv.path)
            while len(racers) < n:
                racers.append(fresh())
            cid, prev, err = run_canonical(c0, k)
            if err:
                ctx.inconc({"replay_race": err})
                c0.close()
                c0 = None
                continue
            req = request(STEPS[k], cid, prev)
            raw = json.dumps(req).encode() + b"\0"
            socks = [c.s for c in racers]
            for s_ in socks:
                s_.sendall(raw)
            outs = []
            for c in racers:
                try:
                    f = c.frame()
                except socket.timeout:
                    outs.append(("timeout", None))
                    continue
                if f is None:
                    outs.append(("eof", None))
                elif f.get("error"):
                    outs.append(("error", f.get("error")))
                else:
                    outs.append(("success", f))
        except (OSError, ValueError) as e:
            ctx.inconc({"replay_race": repr(e)})
            for c in racers + ([c0] if c0 else []):
                c.close()
            racers, c0 = [], None
            continue
        # a refused step may close its connection: those racers are replaced
        keep = []
        for c, o in zip(racers, outs):
            if o[0] in ("eof", "timeout") or c.eof:
                c.close()
            else:
                keep.append(c)
        racers = keep
        ok = sum(1 for o in outs if o[0] == "success")
        ctx.case(("replay-race", STEPS[k], r))
        ctx.count("replay_races")
        ctx.count("error_replies_observed", sum(1 for o in outs if o[0] == "error"))
        if ok > 1:
            ctx.violation("c19:deviation-passes:%s:replayed-step-in-a-race" % STEPS[k], {"engine": "c19", "step_name": STEPS[k], "kind": "replay-race", "request": req,
                          "outcome": [o[0] for o in outs], "message": "%d of 8 simultaneous sends of one step under one client id got the step's success reply; at most one of them is in sequence" % ok})
            break
        elif ok == 0:
            ctx.violation("c19:in-sequence-step-refused:%s:in-a-race" % STEPS[k], {"engine": "c19", "step_name": STEPS[k], "kind": "replay-race", "request": req,
                          "outcome": outs[:3], "message": "none of 8 simultaneous sends of the step that is next in sequence was accepted"}) if all(o[0] == "error" for o in outs) else ctx.inconc({"replay_race": outs[:2]})
        elif any(o[0] == "timeout" for o in outs):
            ctx.inconc({"replay_race": [o for o in outs if o[0] == "timeout"][:2]})
    for c in racers + ([c0] if c0 else []):
        c.close()


def concurrent(ctx, srv, rounds):
    rng = vlib.Rng(ctx.seed + 9)
    for r in range(rounds):
        n = rng.range(1, 16)
        errs = []
        barrier = threading.Barrier(n)

        def client(i):
            try:
                c = Conn(srv.path)
                barrier.wait(timeout=10)
                # interleave: tiny random pauses between steps
                cid, prev = None, {}
                lr = vlib.Rng(ctx.seed * 1000 + r * 100 + i)
                for step in STEPS:
                    req = request(step, cid, prev)
                    c.send(req)
                    if step == "Test11":
                        prev = {}
                        continue
                    replies = []
                    while True:
                        f = c.frame()
                        if f is None or f.get("error"):
                            errs.append((i, step, f))
                            return
                        replies.append(f.get("parameters") or {})
                        if not f.get("continues"):
                            break
                    prev = replies[-1]
                    if step == "Start":
                        cid = prev["client_id"]
                    if step == "Test10":
                        prev = {"__more__": [x["string"] for x in replies]}
                    if step == "End" and prev.get("all_ok") is not True:
                        errs.append((i, step, prev))
                    if lr.chance(1, 3):
                        time.sleep(lr.below(3) / 1000.0)
                c.close()
            except Exception as e:  # noqa
                errs.append((i, "exception", repr(e)))

        ths = [threading.Thread(target=client, args=(i,)) for i in range(n)]
        for t in ths:
            t.start()
        for t in ths:
            t.join()
        ctx.case(("concurrent", n, r))
        ctx.count("concurrent_canonical_clients", n)
        if errs:
            ctx.violation("c19:canonical-sequence-fails-concurrently", {"engine": "c19", "clients": n, "errors": errs[:5]})
