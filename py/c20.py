"""C20: `varlink call` reports exactly what the service replied."""
import json
import sys
import os
import re
import shutil
import subprocess
import tempfile
import threading

import fakesvc
import vlib

ANSI = re.compile(r"\x1b\[[0-9;]*m")


def strict_eq(a, b):
    if type(a) != type(b):
        return False
    if isinstance(a, dict):
        return a.keys() == b.keys() and all(strict_eq(a[k], b[k]) for k in a)
    if isinstance(a, list):
        return len(a) == len(b) and all(strict_eq(x, y) for x, y in zip(a, b))
    return a == b


def parse_stream(txt):
    """sequence of JSON values concatenated in txt"""
    dec = json.JSONDecoder()
    out = []
    i = 0
    n = len(txt)
    while True:
        while i < n and txt[i] in " \t\r\n":
            i += 1
        if i >= n:
            return out
        v, j = dec.raw_decode(txt, i)
        out.append(v)
        i = j


STRS = ["", "a", "ü", "日本語", "😀", "q\"uote", "back\\slash", "nl\nline", "tab\t", "\u0001\u001f", "</script>", " ", "a" * 300, "\x1b[31mfake-red\x1b[0m", "{}", "null"]
INTS = [0, 1, -1, 42, 2**31, -2**31, 2**53, 2**53 + 1, 2**63 - 1, -2**63, 2**64 - 1]
# mantissa < 2^53 and |decimal exponent of the digit string| <= 22: the domain in which a
# conforming parser's fast path is exact (serde_json's default parser is off by an ulp outside)
FLOATS = [0.5, -1.25, 1e10, 1.5e-7, 3.25, 123456.789, -0.001, 1e15, 2.5e-10]


def gen_value(rng, depth):
    k = rng.below(6 if depth == 0 else 9)
    if k == 0:
        return None
    if k == 1:
        return rng.chance(1, 2)
    if k == 2:
        return rng.pick(INTS)
    if k == 3:
        return rng.pick(FLOATS)
    if k in (4, 5):
        return rng.pick(STRS)
    if k == 6:
        return [gen_value(rng, depth - 1) for _ in range(rng.below(4))]
    return {rng.pick(STRS + ["key", "k2", "x"]): gen_value(rng, depth - 1) for _ in range(rng.below(4))}


def gen_params(rng):
    k = rng.below(8)
    if k == 0:
        return "ABSENT"
    if k == 1:
        return {}
    return {("f%d" % i if rng.chance(1, 2) else rng.pick(STRS + ["key"])): gen_value(rng, 3) for i in range(rng.range(1, 4))}


STD = ["InterfaceNotFound", "MethodNotFound", "MethodNotImplemented", "InvalidParameter"]
STD_PARAM = {"InterfaceNotFound": "interface", "MethodNotFound": "method", "MethodNotImplemented": "method", "InvalidParameter": "parameter"}


def main(tier, replay):
    ctx = vlib.Ctx("C20", tier, "exploration")
    ctx.rule = ("scripted reply streams (nested objects/arrays, non-ASCII and escape-heavy strings, ESC bytes, boundary integers up to u64::MAX, floats, empty objects, absent parameters) x {call; call --more with k in 0..5 continues replies; "
                "error replies standard/custom with/without parameters, also after k continues; connection closed instead of/within the reply stream} x address forms {unix path with several slashes, unix path;mode=, abstract, tcp by numeric address and by host name, via resolver, --activate of a service that prints to its own stdout/stderr} x --color on/off; "
                "distinct = (reply script, mode, address form, colour); non-trivial = >=1 nested value or >=2 replies or an error")
    ctx.assumptions.append("stdout is parsed with Python's json (independent parser); numbers are compared with their JSON kind (int vs float); floats come from a pool that round-trips exactly in any conforming printer/parser pair")
    bindir = vlib.build_repo_bins("debug", ["varlink-cli"])
    if bindir is None:
        print("INCONCLUSIVE property=C20 reason=repository binaries failed to build")
        return 2
    varlink = os.path.join(bindir, "varlink")
    tmp = tempfile.mkdtemp(prefix="c20-", dir=os.path.join(vlib.VERIF, "target"))
    deep = os.path.join(tmp, "a", "b.c", "d")
    os.makedirs(deep)
    script = {"replies": []}
    lock = threading.Lock()

    def handler(req, _state):
        with lock:
            return list(script["replies"])

    svcs = {
        "unix-deep": fakesvc.FakeService("unix", handler, path=os.path.join(deep, "sock")),
        "abstract": fakesvc.FakeService("abstract", handler, name="verif-c20-%d" % os.getpid()),
        "tcp": fakesvc.FakeService("tcp", handler),
    }
    table = {"org.example.t": svcs["unix-deep"].address}
    resolver = fakesvc.FakeService("unix", fakesvc.resolver_handler(table), path=os.path.join(tmp, "resolver"))
    n = 800 if tier == "quick" else 20000
    if replay:
        ctx.replay_mode = True
        w = json.load(open(replay))["witness"]
        cases = [(w["replies"], w["more"], w["form"], w["color"])]
    else:
        rng = vlib.Rng(ctx.seed)
        cases = []
        forms = ["unix-deep", "unix-mode", "abstract", "tcp", "resolver", "activate", "tcp-hostname"]
        for i in range(n):
            more = rng.chance(1, 2)
            k = rng.below(6) if more else 0
            replies = []
            for j in range(k):
                p = gen_params(rng)
                r = {"continues": True}
                if p != "ABSENT":
                    r["parameters"] = p
                replies.append(r)
            fin = rng.below(10)
            if fin < 5:
                p = gen_params(rng)
                r = {}
                if p != "ABSENT":
                    r["parameters"] = p
                replies.append(r)
            elif fin < 7:
                e = rng.pick(STD)
                r = {"error": "org.varlink.service." + e}
                if rng.chance(3, 4):
                    r["parameters"] = {STD_PARAM[e]: rng.pick(["the.value", "ü-param", "x y"])}
                replies.append(r)
            elif fin < 9:
                r = {"error": rng.pick(["com.example.Custom", "org.example.t.Failed", "a.b.C"])}
                if rng.chance(1, 2):
                    r["parameters"] = {"reason": rng.pick(["why-1", "ü-why"]), "code": rng.pick([7, -1, 2**40])}
                replies.append(r)
            else:
                replies.append("close")
            # the final reply may spell "no more replies" as: member absent, false, or null
            if isinstance(replies[-1], dict):
                sp = rng.below(3)
                if sp == 1:
                    replies[-1]["continues"] = False
                elif sp == 2:
                    replies[-1]["continues"] = None
            cases.append((replies, more, forms[i % len(forms)], "on" if (i // len(forms)) % 2 else "off"))
    try:
        for (replies, more, form, color) in cases:
            with lock:
                script["replies"] = replies
            if form == "unix-deep":
                target = svcs["unix-deep"].address + "/org.example.t.Method"
            elif form == "unix-mode":
                target = svcs["unix-deep"].address + ";mode=0600/org.example.t.Method"
            elif form == "abstract":
                target = svcs["abstract"].address + "/org.example.t.Method"
            elif form == "tcp":
                target = svcs["tcp"].address + "/org.example.t.Method"
            elif form == "tcp-hostname":
                # the host part of a tcp address is a host, not necessarily an address literal
                target = svcs["tcp"].address.replace("127.0.0.1", "localhost") + "/org.example.t.Method"
            else:
                target = "org.example.t.Method"
            cmd = [varlink, "--color", color, "-R", resolver.address, "call"] + (["--more"] if more else []) + [target, '{"arg": 1}']
            if form == "activate":
                # a service started by the tool itself (socket activation) that prints to its own
                # stdout and stderr: only the replies' parameters belong on the tool's stdout
                sf = os.path.join(tmp, "actsvc-script.json")
                with open(sf, "w") as fh:
                    json.dump(replies, fh)
                act = "%s %s %s" % (sys.executable, os.path.join(os.path.dirname(os.path.abspath(__file__)), "actsvc.py"), sf)
                cmd = [varlink, "--color", color, "--activate", act, "call"] + (["--more"] if more else []) + ["org.example.t.Method", '{"arg": 1}']
            if ctx.violations >= 5:
                break
            try:
                p = subprocess.run(cmd, stdout=subprocess.PIPE, stderr=subprocess.PIPE, timeout=30)
            except subprocess.TimeoutExpired:
                # the scripted service answers at once and then sits idle: a tool that is still
                # running 30 s later is waiting for something that will not come.  Once is
                # inconclusive; the same case hanging again is a verdict.
                with lock:
                    script["replies"] = replies
                try:
                    subprocess.run(cmd, stdout=subprocess.PIPE, stderr=subprocess.PIPE, timeout=30)
                    ctx.inconc({"why": "varlink call did not exit within 30 s once, but did when repeated", "replies": replies})
                except subprocess.TimeoutExpired:
                    ctx.case((json.dumps(replies, sort_keys=True)[:300], more, form, color))
                    ctx.violation("c20:does-not-exit-after-the-final-reply:%s" % ("more" if more else "call"), {"engine": "c20", "replies": replies, "more": more, "form": form, "color": color, "cmd": cmd[1:],
                                  "message": "the service sent its final reply and keeps the connection open; `varlink call` is still running 30 s later (twice)"})
                continue
            out = p.stdout.decode("utf-8", "replace")
            err = p.stderr.decode("utf-8", "replace")
            plain_out = ANSI.sub("", out) if color == "on" else out
            # expectation
            expected = []
            exit_ok = True
            err_reply = None
            for r in replies:
                if r == "close":
                    exit_ok = False
                    break
                if r.get("error"):
                    exit_ok = False
                    err_reply = r
                    break
                expected.append(r.get("parameters", {}))
                if not r.get("continues"):
                    break
            nested = any(isinstance(v, (dict, list)) and v for e in expected if isinstance(e, dict) for v in e.values())
            nontrivial = nested or len(expected) >= 2 or not exit_ok
            ctx.case((json.dumps(replies, sort_keys=True)[:300], more, form, color) if nontrivial else None)
            ctx.count("cli_invocations")
            wit = {"engine": "c20", "replies": replies, "more": more, "form": form, "color": color, "cmd": cmd[1:], "stdout": out[:3000], "stderr": err[:1500], "exit": p.returncode}
            # the ESC bytes inside *values* are escaped by the JSON printer (\u001b), so stripping
            # real escape sequences cannot damage them
            try:
                got = parse_stream(plain_out)
            except ValueError as e:
                ctx.violation("c20:stdout-not-json:color-%s" % color, dict(wit, message="stdout is not a sequence of JSON values: %s" % e))
                continue
            if len(got) != len(expected) or not all(strict_eq(g, e) for g, e in zip(got, expected)):
                kind = "count" if len(got) != len(expected) else "value"
                ctx.violation("c20:stdout-differs:%s:%s" % (kind, "more" if more else "call"), dict(wit, message="printed values differ from the successful replies' parameters", expected=expected, got=got))
                continue
            if (p.returncode == 0) != exit_ok:
                ctx.violation("c20:exit-status:%s" % ("zero-on-failure" if p.returncode == 0 else "nonzero-on-success"), dict(wit, message="exit status %d but %s" % (p.returncode, "an error/missing reply occurred" if not exit_ok else "every expected reply arrived")))
                continue
            if err_reply is not None:
                perr = ANSI.sub("", err)
                name = err_reply["error"]
                short = name.split(".")[-1]
                std = name.startswith("org.varlink.service.") and short in STD
                if (short if std else name) not in perr:
                    ctx.violation("c20:error-name-not-reported", dict(wit, message="error name %s not on stderr" % name))
                    continue
                for k, v in (err_reply.get("parameters") or {}).items():
                    sv = v if isinstance(v, str) else json.dumps(v)
                    if sv not in perr:
                        ctx.violation("c20:error-parameter-not-reported:%s" % ("standard" if std else "custom"), dict(wit, message="error parameter %s=%r not on stderr" % (k, v)))
                        break
            if len(ctx.samples) < 10 and nontrivial:
                ctx.sample({"replies": replies, "more": more, "address_form": form, "color": color, "stdout": out[:400], "exit": p.returncode})
        return ctx.finish(100 if tier == "quick" else 5000)
    finally:
        for s in svcs.values():
            s.stop()
        resolver.stop()
        shutil.rmtree(tmp, ignore_errors=True)
