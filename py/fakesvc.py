"""Scripted fake varlink services in Python (raw protocol over sockets): used by the
process-level checks as the service behind `varlink call` / `varlink bridge`."""
import json
import os
import socket
import threading
import time


class FakeService:
    """handler(request_obj, conn_state) -> list of reply objects (each sent NUL-terminated), or
    the string 'close' to close the connection right away, or a tuple ('upgrade', reply_obj)
    to reply and then switch the connection to raw echo-recording mode."""

    def __init__(self, kind, handler, path=None, name=None):
        self.handler = handler
        self.log = []  # (conn id, 'req'|'raw'|'eof', payload)
        self.lock = threading.Lock()
        self.kind = kind
        self.conn_n = 0
        if kind == "unix":
            self.sock = socket.socket(socket.AF_UNIX, socket.SOCK_STREAM)
            if os.path.exists(path):
                os.unlink(path)
            self.sock.bind(path)
            self.address = "unix:" + path
        elif kind == "abstract":
            self.sock = socket.socket(socket.AF_UNIX, socket.SOCK_STREAM)
            self.sock.bind("\0" + name)
            self.address = "unix:@" + name
        else:
            self.sock = socket.socket(socket.AF_INET, socket.SOCK_STREAM)
            self.sock.setsockopt(socket.SOL_SOCKET, socket.SO_REUSEADDR, 1)
            self.sock.bind(("127.0.0.1", 0))
            self.address = "tcp:127.0.0.1:%d" % self.sock.getsockname()[1]
        self.sock.listen(64)
        self.stopped = False
        self.t = threading.Thread(target=self._accept, daemon=True)
        self.t.start()

    def _accept(self):
        while not self.stopped:
            try:
                c, _ = self.sock.accept()
            except OSError:
                return
            with self.lock:
                self.conn_n += 1
                cid = self.conn_n
            threading.Thread(target=self._serve, args=(c, cid), daemon=True).start()

    def _serve(self, c, cid):
        buf = b""
        state = {"id": cid}
        upgraded = False
        try:
            while True:
                d = c.recv(65536)
                if not d:
                    with self.lock:
                        self.log.append((cid, "eof", len(buf)))
                    return
                if upgraded:
                    with self.lock:
                        self.log.append((cid, "raw", d))
                    if state.get("echo"):
                        c.sendall(state["echo"](d))
                    continue
                buf += d
                while b"\0" in buf and not upgraded:
                    f, buf = buf.split(b"\0", 1)
                    try:
                        req = json.loads(f.decode())
                    except ValueError:
                        with self.lock:
                            self.log.append((cid, "garbage", f))
                        c.close()
                        return
                    with self.lock:
                        self.log.append((cid, "req", req))
                    res = self.handler(req, state)
                    if res == "close":
                        c.close()
                        return
                    if isinstance(res, tuple) and res[0] == "upgrade":
                        # a service that speaks first sends its greeting in the same write as the reply
                        c.sendall(json.dumps(res[1]).encode() + b"\0" + state.get("banner", b""))
                        upgraded = True
                        if buf:
                            with self.lock:
                                self.log.append((cid, "raw", buf))
                            if state.get("echo"):
                                c.sendall(state["echo"](buf))
                            buf = b""
                        break
                    for r in res:
                        if r == "close":
                            c.close()
                            return
                        try:
                            data = json.dumps(r).encode() + b"\0"
                            self.nreplies = getattr(self, "nreplies", 0) + 1
                            # every third reply goes out in two segments with a pause in between
                            # (cut before the NUL, or in the middle)
                            k = {0: len(data) - 1, 3: len(data) // 2}.get(self.nreplies % 6)
                            if k and 0 < k < len(data):
                                c.sendall(data[:k])
                                time.sleep(0.002)
                                c.sendall(data[k:])
                            else:
                                c.sendall(data)
                        except OSError:
                            # the peer no longer reads; keep logging what it had sent
                            pass
        except OSError:
            pass
        finally:
            try:
                c.close()
            except OSError:
                pass

    def requests(self):
        with self.lock:
            return [p for (_c, k, p) in self.log if k == "req"]

    def raw(self):
        with self.lock:
            return b"".join(p for (_c, k, p) in self.log if k == "raw")

    def clear(self):
        with self.lock:
            self.log = []

    def stop(self):
        self.stopped = True
        try:
            self.sock.close()
        except OSError:
            pass


def resolver_handler(table, info=None):
    """org.varlink.resolver: Resolve(interface) -> address from `table`; GetInfo answers `info`."""

    def h(req, _state):
        m = req.get("method")
        if m == "org.varlink.resolver.Resolve":
            iface = (req.get("parameters") or {}).get("interface")
            if iface in table:
                return [{"parameters": {"address": table[iface]}}]
            return [{"error": "org.varlink.resolver.InterfaceNotFound", "parameters": {"interface": iface}}]
        if m in ("org.varlink.service.GetInfo", "org.varlink.resolver.GetInfo"):
            return [{"parameters": info or {"vendor": "resolver-vendor", "product": "resolver", "version": "1", "url": "http://r", "interfaces": ["org.varlink.service", "org.varlink.resolver"] + sorted(table)}}]
        return [{"error": "org.varlink.service.MethodNotFound", "parameters": {"method": m}}]

    return h
