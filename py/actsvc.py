#!/usr/bin/env python3
"""Socket-activated scripted varlink service for C20: serves on descriptor 3 the replies listed in
the JSON file named by argv[1], and is deliberately chatty on its OWN stdout and stderr (a banner
and log lines) — none of which belongs in the output of the tool that activated it."""
import json
import os
import socket
import sys

print("actsvc: banner on the service's own stdout")
print('{"this":"is not a reply"}')
sys.stdout.flush()
sys.stderr.write('{"level":"info","msg":"actsvc is up"}\n')
sys.stderr.flush()
if int(os.environ.get("LISTEN_FDS", "0") or 0) < 1:
    sys.exit(3)
script = json.load(open(sys.argv[1]))
ls = socket.socket(fileno=3)
ls.settimeout(20)
try:
    conn, _ = ls.accept()
except OSError:
    sys.exit(0)
conn.settimeout(20)
buf = b""
try:
    while True:
        while b"\0" not in buf:
            d = conn.recv(65536)
            if not d:
                sys.exit(0)
            buf += d
        f, buf = buf.split(b"\0", 1)
        req = json.loads(f.decode())
        m = req.get("method", "")
        sys.stderr.write('{"level":"debug","msg":"request %s"}\n' % m)
        sys.stderr.flush()
        if m == "org.varlink.service.GetInfo":
            out = [{"parameters": {"vendor": "v", "product": "p", "version": "1", "url": "u", "interfaces": ["org.varlink.service", "org.example.t"]}}]
        elif m == "org.varlink.service.GetInterfaceDescription":
            out = [{"parameters": {"description": "interface org.example.t\nmethod Method(arg: int) -> (x: object)\n"}}]
        else:
            out = script
        for r in out:
            if r == "close":
                conn.close()
                sys.exit(0)
            conn.sendall(json.dumps(r).encode() + b"\0")
            print("actsvc: sent a reply")
            sys.stdout.flush()
except (OSError, ValueError):
    sys.exit(0)
