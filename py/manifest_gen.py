#!/usr/bin/env python3
"""Regenerates /verif/MANIFEST.json from the table below (keeps it schema-valid at all times).
A property is claimed only once its check exists (CLAIMED); everything else is listed under
not_applicable with the reason 'check not built yet'."""
import json
import os

VERIF = os.path.abspath(os.path.join(os.path.dirname(os.path.abspath(__file__)), ".."))

BASELINE_OFF = ("cd /repo && cargo nextest run --workspace --no-fail-fast --tool-config-file pb:/w/lib/nextest.toml "
                "--profile pb --test-threads 8 --offline || cargo test --workspace --no-fail-fast --offline")

# id -> (category, technique, level text, level note, design ref)
P = {
    "C01": ("exploration", "runtime monitor: token-attributed reply-stream aligner over exhaustive+random request histories (in-memory handle() and listen() sockets with sentinel requests); Miri overlay",
            "Every request sequence over an 11-kind x 4-flag alphabet up to length 3 (quick) / 4 (thorough) at every pipelining depth, plus random sequences of length 5-40 over 20 kinds, is executed against the real handle() and through real listen() sockets; a frame aligner attributes every reply frame to exactly one request by unique token/position and a sentinel request decides 'skipped while the connection stayed open' logically. Held on the executions explored, not beyond the bounds.",
            "Trusts the harness' reference model of the test service (written from the statement), serde_json for parsing frames, and that an answered later sentinel proves the connection was open.", "4 C01"),
    "C04": ("exploration", "runtime monitor: oneway-attribution + metamorphic stream comparison over exhaustive request histories; real client vs fake and real servers",
            "Every core request kind with oneway set at every position of every sequence up to the bound: no reply frame may carry the oneway request's token and the reply stream must equal the stream of the same sequence without the oneway requests; client half: all op sequences over {call, oneway, more, failing oneway, unknown-interface oneway} up to length 5/7 against a fake server that never answers oneway and up to 4/6 against the real listen() server; each call must get its own token back.",
            "Metamorphic half compares the implementation with itself (C01 judges the base stream absolutely).", "4 C04"),
}

CLAIMED = ["C01", "C04"]

ALL = ["C%02d" % i for i in range(1, 21)]


def main():
    checks = []
    for pid in CLAIMED:
        cat, tech, text, note, ref = P[pid]
        checks.append({
            "property_id": pid,
            "quick_cmd": "bin/check %s quick" % pid,
            "thorough_cmd": "bin/check %s thorough" % pid,
            "evidence_file": "evidence/%s.json" % pid,
            "replay_cmd_template": "bin/check %s quick --replay {path}" % pid,
            "engine": "harness",
            "level_claimed": {"category": cat, "text": text, "design_ref": "DESIGN.md section " + ref},
            "level_note": note,
            "technique": tech,
        })
    na = [{"property_id": p, "reason": "check not built yet (work in progress; see DESIGN.md)"} for p in ALL if p not in CLAIMED]
    m = {
        "version": 1,
        "setup_cmd": "bin/setup",
        "hooks": {
            "guard": "--cfg varlink_rust_verif",
            "enable": "RUSTFLAGS='--cfg varlink_rust_verif' (set by bin/check for every build of /repo code)",
            "baseline_off_cmd": BASELINE_OFF,
            "source_commits": json.load(open(os.path.join(VERIF, "hooks_commits.json"))) if os.path.exists(os.path.join(VERIF, "hooks_commits.json")) else [],
            "add_only": True,
        },
        "engines": [
            {"name": "harness", "path": "harness/", "serves_properties": sorted(set(CLAIMED)), "kind_free_text": "Rust binary `vh` linking /repo's crates by path: generators, drivers, monitors/oracles, evidence writer"},
            {"name": "py", "path": "py/", "serves_properties": [], "kind_free_text": "process-level orchestration (CLI, certification server, activation, generated-crate builds)"},
        ],
        "checks": checks,
        "notes": "All checks go through bin/check <id> <tier>; it rebuilds the harness against /repo's working tree with the guard on. VERIF_SEED seeds random parts. Known findings: known_findings.txt.",
        "not_applicable": na,
    }
    with open(os.path.join(VERIF, "MANIFEST.json"), "w") as f:
        json.dump(m, f, indent=1)
        f.write("\n")


if __name__ == "__main__":
    main()
