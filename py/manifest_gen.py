#!/usr/bin/env python3
"""Regenerates /verif/MANIFEST.json from the table below (keeps it schema-valid at all times).
A property is claimed only once its check exists (CLAIMED); everything else is listed under
not_applicable with the reason 'check not built yet'."""
import json
import os

VERIF = os.path.abspath(os.path.join(os.path.dirname(os.path.abspath(__file__)), ".."))

BASELINE_OFF = ("cd /repo && cargo nextest run --workspace --no-fail-fast --tool-config-file pb:/w/lib/nextest.toml "
                "--profile pb --test-threads 8 --offline || cargo test --workspace --no-fail-fast --offline")

# id -> (category, technique, level text, level note, design ref)
P = {
    "C01": ("exploration", "runtime monitor: token-attributed reply-stream aligner over exhaustive+random request histories (in-memory handle() and listen() sockets with sentinel requests); Miri overlay",
            "Every request sequence over an 11-kind x 4-flag alphabet up to length 3 (quick) / 4 (thorough) at every pipelining depth, plus random sequences of length 5-40 over 20 kinds, is executed against the real handle() and through real listen() sockets; a frame aligner attributes every reply frame to exactly one request by unique token/position and a sentinel request decides 'skipped while the connection stayed open' logically. Held on the executions explored, not beyond the bounds.",
            "Trusts the harness' reference model of the test service (written from the statement), serde_json for parsing frames, and that an answered later sentinel proves the connection was open.", "4 C01"),
    "C04": ("exploration", "runtime monitor: oneway-attribution + metamorphic stream comparison over exhaustive request histories; real client vs fake and real servers",
            "Every core request kind with oneway set at every position of every sequence up to the bound: no reply frame may carry the oneway request's token and the reply stream must equal the stream of the same sequence without the oneway requests; client half: all op sequences over {call, oneway, more, failing oneway, unknown-interface oneway} up to length 5/7 against a fake server that never answers oneway and up to 4/6 against the real listen() server; each call must get its own token back.",
            "Metamorphic half compares the implementation with itself (C01 judges the base stream absolutely).", "4 C04"),
}

P.update({
    "C02": ("exploration", "runtime monitor: metamorphic single-chunk vs segmented execution of handle(), absolute tail and upgraded-byte-stream oracle with recording call_upgraded handlers; socket write/delay schedules through listen()",
            "Streams (request sequences, messages around the 8 KiB internal buffers, upgrade + 0-40 KiB payload) x segmentations (every single cut, every pair of cuts for short streams, byte-at-a-time, random k-cuts, cuts at buffer boundaries) are executed through the real handle() with two caller models and through listen() sockets; replies must equal the single-chunk run, the tail must equal the bytes after the last NUL, and recording upgraded handlers must receive exactly the payload.",
            "Reply bytes are compared implementation-against-itself; kernel-level segmentation is only sampled (write boundaries + delays).", "4 C02"),
    "C03": ("exploration", "runtime monitor: recording Interface implementations + explicit routing specification over adversarial name sets and method strings",
            "Random services with 0-6 recording interfaces whose names are adversarial (shared prefixes, a dotted prefix of another, hyphens/digits/upper case) are driven with every registered name x {known, unknown, empty} method, every prefix/suffix, empty elements, leading/trailing dots and service-interface calls with parameters of every JSON type; an explicit specification function decides which recorder (if any) must see the call unchanged and what the reply must be; GetInfo/GetInterfaceDescription are checked against the configuration.",
            "Statement-silent cases (dot-less methods, non-string interface parameter) are counted as skipped_unspecified and only judged for 'no recorder called'.", "4 C03"),
    "C05": ("exploration", "runtime monitor: per-op write/result log of scripted method implementations against a 20-line simulation; client iterator vs scripted fake server",
            "Server half is exhaustive: every script over {set_continues(true/false), reply, reply_error} (thorough: + the three library error replies) up to length 5 x 4 flag combinations runs inside a real method implementation; a writer/Result log is checked op by op (gated attempt must fail and write nothing; otherwise exactly one frame with the right continues flag). Client half: MethodCall::more() against a fake server playing k continues + final (result/standard/custom error) then follow-up calls.",
            "Exhaustive to the stated script length; trusts the harness' log ordering (single-threaded per handle() call).", "4 C05"),
    "C06": ("fault_enumeration", "fault injection: systematic byte-level and structured corruption of valid request streams, judged against the replies to the well-formed prefix; listen() in a child process beside healthy neighbours",
            "Every byte position of a 40-stream corpus x 8 byte-level operators + structured operators (retyped/removed members, nesting 1..10^4, empty, non-object, oversized) + random bytes through handle() under catch_unwind, and through listen() in a child process (so an abort is an exit status) with a concurrently pipelining healthy neighbour checked by the C01 aligner and later connections.",
            "Classifier of 'malformed' is written by hand from the statement; duplicate keys, out-of-range numbers and nesting >100 are don't-care (containment only). Allocation failure is out of reach.", "4 C06"),
})

P.update({
    "C07": ("exploration", "runtime monitor: client/server event-history check (own-token delivery, busy exclusivity, request conservation) over exhaustive op sequences and multi-threaded stress against a scripted fake server; TSan + Miri overlays",
            "~60 reply objects through call() (error-kind mapping); every sequence over {call, more(0), more(2), next, oneway, resend, drain} up to length 4/6 against a scripted fake server, with a conservation check (requests on the wire = calls that were allowed to go out, in order); 2-8 real threads sharing one connection with injected reply delays: every outcome is own-token or ConnectionBusy, no foreign reply, no partial bytes, requests seen = successful calls. Distinct interleavings observed are counted.",
            "Thread schedules are sampled (OS scheduling + delays), not enumerated; TSan/Miri overlays in the thorough tier look for races the history cannot show.", "4 C07"),
    "C17": ("exploration", "runtime monitor: round-trip oracle over all three serde_json entry points + independently built expected wire values; exhaustive small domain + random",
            "All Request/Reply values over {unset,true,false}^3 flags x 6 method strings x 6 parameter shapes, all string sets/maps over an 18-key pool (empty, non-ASCII, quotes, backslashes, control characters) up to size 3 exhaustively plus random larger ones, ServiceInfo and description types, through to_string/to_vec/to_value and from_str/from_slice/from_value; the reverse direction starts from hand-built JSON objects (including null-valued optionals).",
            "Trusts serde_json's own value parser as the reference for 'is JSON' and for structural comparison.", "4 C17"),
})

P.update({
    "C14": ("exploration", "runtime monitor with controlled scheduling: blocking probe callback parks every pool thread, a central scheduler enumerates (DFS + state pruning) and samples schedules of the REAL pool; oracles on job start/quiescence; hook-free socket cross-check",
            "The real ThreadPool is driven through cfg-guarded probes whose callback parks each pool thread and the acceptor; a scheduler grants one step at a time, enumerating all schedules at probe granularity by DFS with abstract-state pruning for initial 1-3 x max 1-4 x 1-5 long-lived jobs (capped per configuration in quick) plus seeded random walks. Oracles: job bodies running <= max at every state; at every pool-quiescent state (acceptor between execute() calls, no pool thread enabled) no job is queued while fewer than max run. A hook-free cross-check counts simultaneously blocked calls through real listen() sockets (burst and one-by-one arrival) and proves stranding logically by a further connection.",
            "Interleavings finer than probe granularity (inside std's channel/locks) are only sampled (TSan/Miri overlays in thorough). Worker/job symmetry reduction assumes workers in the same local state are interchangeable.", "4 C14"),
})

P.update({
    "C13": ("exploration", "runtime monitor: per-connection token-attributed stream aligner under concurrent stress with misbehaving peers held open; TSan overlay",
            "2-64 simultaneous clients (unix + TCP) against one listen() server, each pipelining a random globally-token-tagged sequence with random depth/segmentation/delays, beside idle, half-message, close-mid-message, garbage and byte-dripping peers that stay open until every well-behaved client has finished (so completion is decided by event order, not by a timeout); each client's stream is judged by the C01 aligner plus a foreign-token scan.",
            "OS schedules are sampled by randomised timing; completion orders observed are counted. Races invisible in the reply streams are left to the TSan overlay (thorough).", "4 C13"),
    "C15": ("exploration", "runtime monitor: timestamped scenario histories (one monotonic clock) against ordering oracles; timing-based candidates re-run in isolation",
            "A scenario matrix (idle timeout 0/1/2 s x stop flag none/before/during/never x three pool shapes x ten connection histories incl. handled signals delivered to the thread inside listen() while it waits, a panicking handler, arrival just before the deadline, long-lived across deadlines, close at the deadline, streaming reply in flight, queued-but-accepted connection at stop, connection churn after the flag x jitter) runs against real listen() threads; oracles on event order: result kind, no Timeout earlier than T after the last connect, no return before every served connection is closed, no truncated reply, socket path removed; promptness as a bounded criterion confirmed by three isolated re-runs.",
            "Wall-clock only enters through a generous bound (+3 s) whose single expiry is inconclusive; the Windows branch is out of reach.", "4 C15"),
})

P.update({
    "C10": ("exploration", "runtime monitor: re-parse + structural equality + idempotence + escape-stripped comparison over generated definitions x every width; CLI differential",
            "300 (quick) / 20 000 (thorough) grammar-directed definitions, decorated with every legal whitespace code point, all five line-ending conventions and comments (incl. ESC bytes), are formatted at every width 0..200 and three huge widths (each fit/no-fit threshold is crossed; crossings are counted); the formatted text must re-parse to a structurally equal definition, re-format byte-identically, equal the colored rendering modulo escapes, and `varlink format -c` must print the same.",
            "Re-parsing trusts the parser under test (judged separately by C11); member order is per kind (what the public IDL exposes).", "4 C10"),
    "C11": ("exploration", "differential runtime monitor: implementation vs two independent hand-written recursive-descent recognisers (strict subset / liberal superset) over exhaustive small domains, generated valid texts and token-level near misses",
            "Every interface name over {a,B,1,-,.} up to length 7 (97 655), every type expression up to 5/6 tokens, every ordered member-kind pair x same/different name x position (duplicate matrix), generated valid definitions in three trivia levels and ten single-token mutants of each are parsed by the real parser and bracketed by a strict and a liberal reference recogniser: strict-accept => must accept with the same structure (names, per-kind order, fields, types, doc comments); liberal-reject => must reject; duplicates => Error::Idl naming every duplicated name; in between => unspecified, counted.",
            "The reference grammar is reproduced from the published varlink rules from memory; trivia placement is pinned to the implementation's layout (regression only).", "4 C11"),
    "C12": ("exploration", "runtime monitor: out-of-process totality harness (catch_unwind, 2 MiB stack, watchdog) with a direct oracle on the reported error location",
            "200 000 (quick) / 10 M (thorough) inputs - random Unicode, byte mutations of valid definitions, every prefix of the repository's .varlink files, all five line-ending conventions with injected errors, nesting to depth 200, token mutations, pathological repetitions up to 64 KiB - are parsed in worker processes; a panic, an abort (stack overflow = process death), a 3x reproduced 60 s overrun, an Error::Parse whose line is not a line of the input or whose column is outside it, or an error that cannot be rendered is a violation.",
            "Termination is bounded (60 s x3 for inputs <= 64 KiB); nesting beyond 200 is outside the stated bound.", "4 C12"),
})

P.update({
    "C19": ("fault_enumeration", "fault injection against the real certification server process: every single-field mutation / flag combination / wrong position / bad client id for a client brought canonically to each step; reply classifier as oracle",
            "For each of the 13 steps a fresh client id is brought canonically to that step (canonical requests are derived by running the flow) and then sent one deviating request: each leaf changed, retyped to every other JSON type or removed, containers retyped / elements added, removed, swapped / keys added / structs written as positional arrays, all 7 non-canonical more/oneway/upgrade combinations, every other step's request, unknown/empty/foreign ids (thorough: pairs of mutations). Any reply without an error member is a violation; negative controls must still pass; 1-16 concurrent canonical clients must all succeed.",
            "'Deviation' is defined on JSON values by the harness; serde-level equivalences that are documented negative controls are excluded.", "4 C19"),
    "C20": ("exploration", "differential runtime monitor: scripted Python fake service vs stdout/stderr/exit status of the real `varlink call` binary, parsed by an independent JSON parser",
            "Scripted reply streams (nested values, escape-heavy and non-ASCII strings, ESC bytes, integers to u64::MAX, floats, absent parameters; k continues + final result/standard error/custom error/close) are served by a Python fake service over five address forms (deep unix path, ;mode=, abstract, TCP, via a fake resolver) and read back through `varlink call [--more] --color on|off`: stdout parsed as a JSON value sequence must equal the successful replies' parameters with JSON number kinds, exit status 0 iff complete and error-free, error name and parameters on stderr.",
            "Floats restricted to the exactly round-tripping domain; the fake service is the harness' own.", "4 C20"),
})

P.update({
    "C16": ("exploration", "differential runtime monitor: the same request sequences through 7 ways of reaching one service (child processes under watchdog + gdb), activation self-report cross-check, environment-matrix observation, address-string rejection",
            "40/400 request sequences of the C01 alphabet are sent through the in-memory reference, unix path, unix path;mode=, abstract unix, TCP, Connection::with_activate(cmd) and Connection::with_bridge(cmd); every transport must give the reference's canonical frames. The activated service reports descriptor 3 (SO_ACCEPTCONN), LISTEN_FDS/FDNAMES/PID, VARLINK_ADDRESS, which are checked against the contract from parents whose descriptor 3 is free and occupied. A server is started under a LISTEN_FDS x LISTEN_PID x LISTEN_FDNAMES matrix with three inherited listening sockets and the socket that answers shows whether activation was honoured. Thousands of address strings with unsupported schemes must be rejected with InvalidAddress by varlink_connect, Connection::with_address and Listener::new.",
            "Each constructor runs in a child process; a hang (30 s+) is reported with gdb backtraces. Windows code paths are out of reach.", "4 C16"),
})

P.update({
    "C18": ("exploration", "differential runtime monitor: the real `varlink bridge` process between a scripted client and scripted services, compared frame by frame with direct connections; byte-exact oracle for upgraded sessions; exit-status/termination monitor",
            "Four bridge modes (resolver lookup with -R, --connect, --activate with a real socket-activated service, --bridge through a second bridge) x request sequences that switch between three scripted services (plain, streaming, upgrade-capable) x client behaviours (one at a time, pipelined, random segmentation) x upgraded sessions with 0 B-64 KiB payload after the upgrade reply or in the same write: frames on the bridge's stdout must equal the direct replies (GetInfo: the configured resolver's), upgraded bytes must arrive exactly once on the right side, and after the client closes the bridge must exit 0 within a bound; a client that writes and closes at once must still have every byte forwarded.",
            "Scripted services are stateless Python fakes; replies not yet produced when the client closes early are not required by the statement (reported as info counters).", "4 C18"),
})

P.update({
    "C08": ("exploration", "runtime monitor over generated programs: byte tap between the generated client and the generated server proxy, recording server implementation, judged against expected JSON built from the IDL alone",
            "24 (quick) / 400 (thorough) grammar-directed interface definitions are run through the generator under test; a driver crate is emitted whose trait-impl signatures are copied token-for-token from the emitted `trait VarlinkInterface`; for 40/200 IDL-type-directed values per method and the modes call / more / oneway with reply and every declared error as outcomes, the tapped request (method name, parameters, flags), the values the implementation saw, the tapped reply frames and the value or error variant the generated client returned are compared with JSON expectations derived from the definition; ill-typed and missing parameters must be answered with InvalidParameter without reaching the implementation.",
            "Only constructs the emitted code compiles for are driven (the rest is C09's); null-valued members count as absent on both sides.", "4 C08"),
    "C09": ("exploration", "runtime monitor over generated programs: generate() under catch_unwind, the generator binary, the proc macro and the build-script helper; oracle = rustc (cargo check) on crates containing only emitted modules, diagnostics attributed per module",
            "60 (quick) / 1500 (thorough) definitions with anonymous structs/enums in every position, IDL and Rust keywords as field names, typedef references (recursion through [] and [string]) and at most one injected risky feature each are emitted through generate(), the varlink-rust-generator binary (same output, exit 0), varlink_derive::varlink! and cargo_build_many; a panic, an abnormal exit or a rustc error located in an emitted module is a violation (classified by the risky feature so that known findings stay specific). Rejection half: token-mutated texts the parser rejects must make every front-end fail with a diagnostic and no output.",
            "The parser's accept/reject verdict is taken as given (C11). rustc is the oracle for 'compiles'.", "4 C09"),
})

CLAIMED = ["C%02d" % i for i in range(1, 21)]

ALL = ["C%02d" % i for i in range(1, 21)]


def main():
    checks = []
    for pid in CLAIMED:
        cat, tech, text, note, ref = P[pid]
        checks.append({
            "property_id": pid,
            "quick_cmd": "bin/check %s quick" % pid,
            "thorough_cmd": "bin/check %s thorough" % pid,
            "evidence_file": "evidence/%s.json" % pid,
            "replay_cmd_template": "bin/check %s quick --replay {path}" % pid,
            "engine": "py" if pid in ("C08", "C09", "C16", "C18", "C19", "C20") else "harness",
            "level_claimed": {"category": cat, "text": text, "design_ref": "DESIGN.md section " + ref},
            "level_note": note,
            "technique": tech,
        })
    na = [{"property_id": p, "reason": "check not built yet (work in progress; see DESIGN.md)"} for p in ALL if p not in CLAIMED]
    m = {
        "version": 1,
        "setup_cmd": "bin/setup",
        "hooks": {
            "guard": "--cfg varlink_rust_verif",
            "enable": "RUSTFLAGS='--cfg varlink_rust_verif' (set by bin/check for every build of /repo code)",
            "baseline_off_cmd": BASELINE_OFF,
            "source_commits": json.load(open(os.path.join(VERIF, "hooks_commits.json"))) if os.path.exists(os.path.join(VERIF, "hooks_commits.json")) else [],
            "add_only": True,
        },
        "engines": [
            {"name": "harness", "path": "harness/", "serves_properties": sorted(set(CLAIMED)), "kind_free_text": "Rust binary `vh` linking /repo's crates by path: generators, drivers, monitors/oracles, evidence writer"},
            {"name": "py", "path": "py/", "serves_properties": [], "kind_free_text": "process-level orchestration (CLI, certification server, activation, generated-crate builds)"},
        ],
        "checks": checks,
        "notes": "All checks go through bin/check <id> <tier>; it rebuilds the harness against /repo's working tree with the guard on. VERIF_SEED seeds random parts. Known findings: known_findings.txt.",
        "not_applicable": na,
    }
    with open(os.path.join(VERIF, "MANIFEST.json"), "w") as f:
        json.dump(m, f, indent=1)
        f.write("\n")


if __name__ == "__main__":
    main()
