"""C18: the CLI bridge is transparent (differential: direct vs bridged)."""
import json
import os
import select
import shutil
import signal
import socket
import subprocess
import tempfile
import time

import fakesvc
import vlib


def desc(name):
    return "interface %s\nmethod Echo(v: object) -> (echo: object, svc: string)\nmethod Stream(n: int) -> (i: int)\nmethod Upgrade() -> ()\nerror Failed (why: string)\n" % name


def make_handler(name):
    def h(req, state):
        m = req.get("method", "")
        p = req.get("parameters")
        if m == "org.varlink.service.GetInterfaceDescription":
            return [{"parameters": {"description": desc(name)}}]
        if m == "org.varlink.service.GetInfo":
            return [{"parameters": {"vendor": "svc-" + name, "product": "p", "version": "1", "url": "u", "interfaces": ["org.varlink.service", name]}}]
        if req.get("oneway"):
            return []
        if m == name + ".Echo":
            return [{"parameters": {"echo": p, "svc": name}}]
        if m == name + ".Fail":
            return [{"error": name + ".Failed", "parameters": {"why": "because"}}]
        if m == name + ".Stream":
            n = (p or {}).get("n", 0)
            if req.get("more"):
                return [{"continues": True, "parameters": {"i": i}} for i in range(n)] + [{"parameters": {"i": n}}]
            return [{"parameters": {"i": n}}]
        if m == name + ".Slow":
            # the reply is still outstanding for a while
            time.sleep(float((p or {}).get("ms", 0)) / 1000.0)
            if req.get("more"):
                out = []
                for i in range(3):
                    out.append({"continues": True, "parameters": {"i": i}})
                return out + [{"parameters": {"i": 3}}]
            return [{"parameters": {"echo": p, "svc": name}}]
        if m == name + ".Flood":
            # far more than a pipe holds (64 KiB): the bridge ends up blocked in a write
            return [{"continues": True, "parameters": {"i": i, "pad": "z" * 4000}} for i in range(100)] + [{"parameters": {"i": 100}}]
        if m == name + ".Bye":
            # reply, then hang up right behind it
            return [{"parameters": {"echo": "y" * int((p or {}).get("n", 0)), "svc": name}}, "close"]
        if m == name + ".Upgrade":
            state["echo"] = lambda b: b.swapcase()
            state["banner"] = banner_bytes(int((p or {}).get("banner", 0)))
            return ("upgrade", {"parameters": {}})
        return [{"error": "org.varlink.service.MethodNotFound", "parameters": {"method": m}}]

    return h


def banner_bytes(n):
    """what an upgraded service that speaks first sends right behind its upgrade reply (same write)"""
    return bytes(65 + (i * 7) % 26 for i in range(n))


def direct(address, req, timeout=10):
    """send one request on a fresh direct connection; return the list of reply frames (objects)"""
    if address.startswith("tcp:"):
        h, p = address[4:].rsplit(":", 1)
        s = socket.create_connection((h, int(p)), timeout=timeout)
    else:
        s = socket.socket(socket.AF_UNIX, socket.SOCK_STREAM)
        s.settimeout(timeout)
        a = address[5:].split(";")[0]
        s.connect("\0" + a[1:] if a.startswith("@") else a)
    s.sendall(json.dumps(req).encode() + b"\0")
    frames = []
    if req.get("oneway"):
        s.close()
        return frames
    buf = b""
    while True:
        while b"\0" not in buf:
            d = s.recv(65536)
            if not d:
                s.close()
                return frames
            buf += d
        f, buf = buf.split(b"\0", 1)
        v = json.loads(f.decode())
        frames.append(v)
        if not v.get("continues"):
            break
    s.close()
    return frames


class Bridge:
    def __init__(self, cmd, env=None):
        e = vlib.base_env()
        e["VH_PROCESS_SERVICE"] = "1"
        if env:
            e.update(env)
        self.p = subprocess.Popen(cmd, stdin=subprocess.PIPE, stdout=subprocess.PIPE, stderr=subprocess.PIPE, env=e, start_new_session=True)
        self.buf = b""
        os.set_blocking(self.p.stdout.fileno(), False)
        os.set_blocking(self.p.stderr.fileno(), False)
        self.err = b""
        self.eof = False

    def write(self, b):
        try:
            self.p.stdin.write(b)
            self.p.stdin.flush()
            return True
        except (BrokenPipeError, OSError):
            return False

    def pump(self, timeout):
        r, _, _ = select.select([self.p.stdout, self.p.stderr], [], [], timeout)
        for f in r:
            try:
                d = os.read(f.fileno(), 1 << 16)
            except BlockingIOError:
                continue
            if f is self.p.stdout:
                if d:
                    self.buf += d
                else:
                    self.eof = True
            else:
                self.err += d

    def read_frames(self, n, timeout=15):
        """read until n NUL-terminated frames are buffered; returns list of raw frames"""
        t0 = time.time()
        while self.buf.count(b"\0") < n and not self.eof and time.time() - t0 < timeout:
            self.pump(0.2)
        parts = self.buf.split(b"\0")
        frames, self.buf = parts[:n], b"\0".join(parts[n:])
        if len(parts) - 1 < n:
            frames = parts[:-1]
            self.buf = parts[-1]
        return frames

    def read_bytes(self, n, timeout=15):
        t0 = time.time()
        while len(self.buf) < n and not self.eof and time.time() - t0 < timeout:
            self.pump(0.2)
        out, self.buf = self.buf[:n], self.buf[n:]
        return out

    def close_and_wait(self, timeout=20):
        """close our side; returns (exit status or None on hang, leftover stdout bytes)"""
        try:
            self.p.stdin.close()
        except OSError:
            pass
        t0 = time.time()
        while self.p.poll() is None and time.time() - t0 < timeout:
            self.pump(0.1)
        rc = self.p.poll()
        # drain
        for _ in range(5):
            self.pump(0.05)
        left = self.buf
        self.kill()
        return rc, left

    def vanish_and_wait(self, timeout=20):
        """the client is gone entirely: both its ends closed; returns the exit status (None = still running)"""
        for f in (self.p.stdin, self.p.stdout):
            try:
                f.close()
            except OSError:
                pass
        t0 = time.time()
        while self.p.poll() is None and time.time() - t0 < timeout:
            try:
                r, _, _ = select.select([self.p.stderr], [], [], 0.1)
                if r:
                    self.err += os.read(self.p.stderr.fileno(), 1 << 16)
            except (OSError, ValueError):
                time.sleep(0.05)
        rc = self.p.poll()
        self.kill()
        return rc

    def kill(self):
        try:
            os.killpg(self.p.pid, signal.SIGKILL)
        except OSError:
            pass
        try:
            self.p.wait(timeout=5)
        except Exception:  # noqa
            pass


def spell_unset_flags(rng, r):
    """one request in four writes the flags it does not set as `false` or `null` instead of
    leaving them out: the same request"""
    if rng.chance(1, 4):
        v = False if rng.chance(2, 3) else None
        for k in ("more", "oneway", "upgrade"):
            if k not in r:
                r[k] = v


def gen_sequence(rng, ifaces, n, allow_getinfo):
    seq = []
    for i in range(n):
        name = rng.pick(ifaces)
        k = rng.below(10)
        tok = "t%d" % i
        if k < 4:
            r = {"method": name + ".Echo", "parameters": {"v": {"tok": tok, "s": rng.pick(["", "ü", "q\"x", "a" * rng.below(3000)])}}}
        elif k < 6:
            r = {"method": name + ".Stream", "parameters": {"n": rng.below(5)}, "more": True}
        elif k == 6:
            r = {"method": name + ".Fail", "parameters": {}}
        elif k == 7:
            r = {"method": name + ".Echo", "parameters": {"v": tok}, "oneway": True}
        elif k == 8:
            r = {"method": "org.varlink.service.GetInterfaceDescription", "parameters": {"interface": name}}
        else:
            r = {"method": name + ".Nope", "parameters": {"tok": tok}}
        spell_unset_flags(rng, r)
        seq.append((name, r))
    if allow_getinfo and rng.chance(1, 2):
        seq.insert(rng.below(len(seq) + 1), ("__resolver__", {"method": "org.varlink.service.GetInfo"}))
    return seq


def std_sequence(rng, n):
    """sequence for the single standard service (modes --connect / --activate)"""
    seq = []
    for i in range(n):
        k = rng.below(8)
        tok = "t%d" % i
        if k < 3:
            r = {"method": "org.verif.t.Echo", "parameters": {"token": tok + ("x" * rng.below(2000))}}
        elif k < 5:
            r = {"method": "org.verif.t.Stream", "parameters": {"n": rng.below(5), "token": tok}, "more": True}
        elif k == 5:
            r = {"method": "org.verif.t.Fail", "parameters": {"token": tok}}
        elif k == 6:
            r = {"method": "org.verif.t.Echo", "parameters": {"token": tok}, "oneway": True}
        else:
            r = {"method": "org.varlink.service.GetInfo"}
        spell_unset_flags(rng, r)
        seq.append(("std", r))
    return seq


def main(tier, replay):
    ctx = vlib.Ctx("C18", tier, "exploration")
    ctx.rule = ("bridge modes {resolver lookup with -R, --connect ADDRESS, --activate CMD, --bridge CMD (a bridge through a second bridge)} x request sequences over three scripted services (plain, streaming, upgrade-capable; the bridge has to switch targets) "
                "or the standard service x client behaviours {one at a time, pipelined in one write, random segmentation} x upgraded sessions with 0 B-64 KiB payload sent after the upgrade reply or in the same write as the request; the client keeps its side open until every expected reply arrived, "
                "then closes and the bridge must exit 0; services that hang up right behind a reply of 0 B-1 MB while the client reads at once or 0.4 s later; distinct = (mode, sequence, behaviour, payload class); non-trivial = >=2 target services or an upgrade")
    ctx.assumptions.append("requests for interfaces no service implements and method names without a dot have no 'direct' counterpart and are not generated; the scripted services are stateless (the bridge opens a service connection per request)")
    ctx.assumptions.append("termination is bounded: 20 s after the client closed its side; a hang is re-run three times and only a reproducible one is a violation")
    vh = vlib.build_harness("hooks")
    bindir = vlib.build_repo_bins("debug", ["varlink-cli"])
    if vh is None or bindir is None:
        print("INCONCLUSIVE property=C18 reason=build failed")
        return 2
    varlink = os.path.join(bindir, "varlink")
    tmp = tempfile.mkdtemp(prefix="c18-", dir=os.path.join(vlib.VERIF, "target"))
    names = ["org.example.a", "org.example.b", "org.example.c"]
    svcs = {n: fakesvc.FakeService("unix", make_handler(n), path=os.path.join(tmp, n.split(".")[-1])) for n in names}
    table = {n: s.address for n, s in svcs.items()}
    resolver = fakesvc.FakeService("unix", fakesvc.resolver_handler(table), path=os.path.join(tmp, "resolver"))
    std_addr = "unix:" + os.path.join(tmp, "std")
    e = vlib.base_env()
    e["VH_PROCESS_SERVICE"] = "1"
    std = subprocess.Popen([vh, "serve", std_addr], env=e, stdout=subprocess.DEVNULL, stderr=subprocess.DEVNULL)
    t0 = time.time()
    while not os.path.exists(std_addr[5:]) and time.time() - t0 < 10:
        time.sleep(0.01)
    modes = {
        "resolver": [varlink, "-R", resolver.address, "bridge"],
        "connect": [varlink, "bridge", "-C", svcs["org.example.a"].address],
        "activate": [varlink, "-A", "%s serve $VARLINK_ADDRESS" % vh, "bridge"],
        "bridge": [varlink, "-b", "%s -R %s bridge" % (varlink, resolver.address), "bridge"],
    }
    # the same service behind an abstract and a TCP address, for `bridge --connect ADDRESS`
    # (every address form is an address, whether or not it contains a slash)
    svcs["connect-abstract"] = fakesvc.FakeService("abstract", make_handler("org.example.a"), name="verif-c18-%d" % os.getpid())
    svcs["connect-tcp"] = fakesvc.FakeService("tcp", make_handler("org.example.a"))
    modes_extra = {
        "connect-abstract": [varlink, "bridge", "-C", svcs["connect-abstract"].address],
        "connect-tcp": [varlink, "bridge", "-C", svcs["connect-tcp"].address],
    }
    nseq = 60 if tier == "quick" else 3000
    rng = vlib.Rng(ctx.seed)
    try:
        for mode, cmd in list(modes.items()) + list(modes_extra.items()):
            multi = mode in ("resolver", "bridge") or mode.startswith("connect")
            for i in range(nseq):
                beh = ["one-at-a-time", "pipelined", "segmented"][i % 3]
                upgrade = (i % 4 == 3)
                if mode in modes_extra and i >= max(8, nseq // 4):
                    break
                if mode.startswith("connect"):
                    seq = gen_sequence(rng, ["org.example.a"], rng.range(2, 8), allow_getinfo=False)
                elif multi:
                    seq = gen_sequence(rng, names, rng.range(2, 8), allow_getinfo=True)
                else:
                    seq = std_sequence(rng, rng.range(2, 8))
                pay = None
                same_write = False
                if upgrade:
                    sizes = [0, 1, 17, 300, 4096, 8192, 20000, 65536]
                    pay = bytes((rng.next() & 0x7f) or 0x41 for _ in range(rng.pick(sizes)))
                    if rng.chance(1, 2):
                        # text-like sessions: short header lines followed by long bodies without a
                        # line end (whatever buffers the copy must not care where lines end)
                        parts = []
                        for _ in range(rng.range(1, 4)):
                            parts.append(b"HTTP/1.0 200 OK %d\n" % rng.range(0, 999) if rng.chance(2, 3) else b"\n")
                            parts.append(bytes(0x41 + (rng.next() % 26) + (0x20 if rng.chance(1, 2) else 0) for _ in range(rng.pick([1023, 1024, 1025, 3000, 8005, 20000]))))
                            if rng.chance(1, 2):
                                parts.append(b"\n")
                        pay = b"".join(parts)
                    same_write = rng.chance(1, 2)
                case(ctx, mode, cmd, seq, beh, pay, same_write, table, resolver, std_addr, svcs, rng)
        # termination clause: the client closes right after its last request
        for mode, cmd in modes.items():
            if mode == "activate":
                continue
            for i in range(10 if tier == "quick" else 300):
                ifs = ["org.example.a"] if mode == "connect" else names
                seq = gen_sequence(rng, ifs, rng.range(1, 6), allow_getinfo=False)
                last = rng.pick(ifs)
                if i % 3 == 2:
                    # the client hangs up while the reply to its last call is still outstanding
                    seq.append((last, {"method": last + ".Slow", "parameters": {"ms": rng.pick([50, 300, 800]), "v": "LAST%d" % i}, "more": rng.chance(1, 2)}))
                else:
                    seq.append((last, {"method": last + ".Echo", "parameters": {"v": "LAST%d" % i}, "oneway": rng.chance(1, 2)}))
                close_early_case(ctx, mode, cmd, seq, table, svcs, rng)
        # the service hangs up right behind its reply while the client keeps its side open and
        # is slow to read: every reply byte the service wrote must still reach the client
        for mode, cmd in modes.items():
            if mode == "activate":
                continue  # the standard service never hangs up first
            for i in range(12 if tier == "quick" else 200):
                n = [0, 30, 9000, 70000, 200000, 1000000][i % 6]
                hangup_case(ctx, mode, cmd, "org.example.a", n, 0.0 if i % 2 else 0.4, svcs)
        # a long session in resolver mode (one service connection per request) against a service
        # that serves at most 6 connections at a time: whatever the bridge no longer needs it
        # has to let go of, or the 7th call finds no worker
        long_sessions(ctx, varlink, vh, tmp, 60 if tier == "quick" else 600)
        # the client vanishes (both ends closed) while the reply to its last call is outstanding
        for mode, cmd in modes.items():
            if mode == "activate":
                continue
            for i in range(6 if tier == "quick" else 100):
                vanish_case(ctx, mode, cmd, "org.example.a", [50, 300, 800][i % 3], i % 2 == 1 or i % 3 == 2)
        if std.poll() is not None:
            ctx.inconc({"standard service died": std.returncode})
        return ctx.finish(60 if tier == "quick" else 3000)
    finally:
        std.kill()
        std.wait()
        for s in svcs.values():
            s.stop()
        resolver.stop()
        shutil.rmtree(tmp, ignore_errors=True)


def canon(frames):
    """GetInfo's interface list has no specified order after the first entry"""
    for f in frames:
        p = f.get("parameters") if isinstance(f, dict) else None
        if isinstance(p, dict) and isinstance(p.get("interfaces"), list) and len(p["interfaces"]) > 2:
            p["interfaces"][1:] = sorted(p["interfaces"][1:])


def upkey(mode):
    """the service object that receives an upgraded session in this bridge mode"""
    if mode == "connect":
        return "org.example.a"
    return mode if mode.startswith("connect-") else "org.example.c"


def case(ctx, mode, cmd, seq, beh, pay, same_write, table, resolver, std_addr, svcs, rng, retry=0):
    multi = mode in ("resolver", "bridge") or mode.startswith("connect")
    # reference: direct connections
    expected = []
    try:
        for (name, req) in seq:
            if name == "__resolver__":
                fr = direct(resolver.address, {"method": "org.varlink.resolver.GetInfo"})
            elif name == "std":
                fr = direct(std_addr, req)
            else:
                fr = direct(table[name], req)
            expected.append(fr)
    except (OSError, ValueError) as e:
        ctx.inconc({"direct reference failed": repr(e)})
        return
    nframes = sum(len(f) for f in expected)
    up_req = None
    if pay is not None:
        up_iface = "org.example.a" if mode.startswith("connect") else "org.example.c"
        up_req = {"method": ((up_iface + ".Upgrade") if multi else "org.verif.t.Upgrade"), "upgrade": True, "parameters": ({} if multi else {"token": "up"})}
        if multi and rng.chance(1, 2):
            # the service speaks first: a greeting of this many bytes follows its upgrade reply in the same write
            up_req["parameters"] = {"banner": rng.pick([1, 17, 300, 1000, 8000, 8192, 20000])}
    targets = len(set(n for n, _ in seq))
    desc = {"mode": mode, "behaviour": beh, "requests": [r for _, r in seq], "upgrade_payload": (len(pay) if pay is not None else None), "payload_in_same_write": same_write}
    ctx.case((mode, json.dumps(desc["requests"], sort_keys=True)[:400], beh, desc["upgrade_payload"], same_write) if (targets >= 2 or pay is not None) else None)
    ctx.count("bridge_sessions")
    if pay is not None:
        svcs[upkey(mode)].clear()
    b = Bridge(cmd)
    got = []
    ok = True
    stream = b"".join(json.dumps(r).encode() + b"\0" for _, r in seq)
    try:
        if beh == "one-at-a-time":
            for (name, req), exp in zip(seq, expected):
                b.write(json.dumps(req).encode() + b"\0")
                fr = b.read_frames(len(exp))
                got.extend(fr)
                if len(fr) < len(exp):
                    ok = False
                    break
        else:
            if beh == "pipelined":
                b.write(stream)
            else:
                cuts = sorted(set(rng.range(1, max(1, len(stream) - 1)) for _ in range(rng.below(6))))
                p0 = 0
                for c in cuts + [len(stream)]:
                    b.write(stream[p0:c])
                    p0 = c
                    time.sleep(rng.below(3) / 1000.0)
            got = b.read_frames(nframes)
            ok = len(got) == nframes
        wit = dict(desc, engine="c18", cmd=cmd[1:])
        exp_flat = [f for fr in expected for f in fr]
        got_v = []
        for g in got:
            try:
                got_v.append(json.loads(g.decode()))
            except ValueError:
                got_v.append({"unparsable": repr(g[:200])})
        canon(got_v)
        canon(exp_flat)
        if not ok or got_v != exp_flat:
            rc = b.p.poll()
            b.pump(0.2)
            sig = "c18:%s:replies-differ-from-direct" % mode
            if rc is not None and rc != 0:
                sig = "c18:%s:bridge-died:%s" % (mode, ("signal%d" % -rc) if rc < 0 else "exit%d" % rc)
            first_bad = next((k for k, (x, y) in enumerate(zip(got_v, exp_flat)) if x != y), min(len(got_v), len(exp_flat)))
            if any(n == "__resolver__" for n, _ in seq):
                # is the GetInfo reply the one that differs / is missing?
                idx = 0
                for (n, _), fr in zip(seq, expected):
                    if n == "__resolver__" and idx <= first_bad < idx + max(1, len(fr)) and rc in (None, 0):
                        sig = "c18:%s:getinfo-not-answered-by-configured-resolver" % mode
                    idx += len(fr)
            ctx.violation(sig, dict(wit, message="bridged replies differ from the direct ones at frame %d (bridge exit status %r)" % (first_bad, rc), expected=exp_flat[:12], got=got_v[:12], stderr=b.err.decode("utf-8", "replace")[-800:]))
            b.kill()
            return
        ctx.count("reply_frames_observed", len(got_v))
        # upgraded session
        if pay is not None:
            upb = json.dumps(up_req).encode() + b"\0"
            if same_write:
                b.write(upb + pay)
            else:
                b.write(upb)
            fr = b.read_frames(1)
            if len(fr) != 1 or b"error" in fr[0]:
                ctx.violation("c18:%s:upgrade-reply-missing" % mode, dict(wit, message="no upgrade reply", got=repr(fr), stderr=b.err.decode("utf-8", "replace")[-800:]))
                b.kill()
                return
            if not same_write:
                # in chunks, to exercise the copy loop
                for k in range(0, len(pay), 7000):
                    b.write(pay[k:k + 7000])
            if multi:
                want_echo = banner_bytes(int(up_req["parameters"].get("banner", 0))) + pay.swapcase()
            else:
                # the standard service acknowledges complete lines only
                want_echo = b"".join(b"ack:" + l for l in pay.split(b"\n")[:-1] if True) if b"\n" in pay else b""
                want_echo = b"".join(b"ack:" + l + b"\n" for l in pay.split(b"\n")[:-1])
            echo = b.read_bytes(len(want_echo), timeout=15)
            cls = "payload-in-same-write" if same_write else "payload-after-reply"
            if up_req["parameters"].get("banner"):
                cls += ":service-speaks-first"
                ctx.count("upgraded_sessions_where_the_service_speaks_first")
            if echo != want_echo:
                recv = svcs[upkey(mode)].raw() if multi else None
                ctx.violation("c18:%s:upgraded-bytes-wrong:%s" % (mode, cls), dict(wit, message="client received %d of %d expected upgraded bytes; first bytes %r; service received %s of %d payload bytes" % (len(echo), len(want_echo), echo[:60], (len(recv) if recv is not None else "?"), len(pay)), stderr=b.err.decode("utf-8", "replace")[-800:]))
                b.kill()
                return
            if multi:
                recv = svcs[upkey(mode)].raw()
                if recv != pay:
                    ctx.violation("c18:%s:upgraded-bytes-to-service-wrong:%s" % (mode, cls), dict(wit, message="service received %d bytes, payload has %d" % (len(recv), len(pay))))
                    b.kill()
                    return
            ctx.count("upgraded_payload_bytes_observed", len(pay))
        # termination clause
        rc, left = b.close_and_wait()
        err = b.err.decode("utf-8", "replace")
        if rc is None:
            if retry < 2:
                return case(ctx, mode, cmd, seq, beh, pay, same_write, table, resolver, std_addr, svcs, rng, retry + 1)
            ctx.violation("c18:%s:bridge-does-not-exit" % mode, dict(wit, message="the bridge was still running 20 s after the client closed its side (3 runs)", stderr=err[-800:]))
        elif rc != 0:
            kind = ("signal%d" % -rc) if rc < 0 else ("exit%d" % rc)
            ctx.violation("c18:%s:abnormal-exit:%s:%s" % (mode, kind, "upgraded" if pay is not None else "plain"), dict(wit, message="the bridge exited with %s after the client closed its side" % kind, stderr=err[-800:]))
        elif left:
            ctx.violation("c18:%s:extra-output" % mode, dict(wit, message="unexpected extra bytes on stdout: %r" % left[:200]))
        if len(ctx.samples) < 8:
            ctx.sample(dict(desc, exit=rc, frames=len(got_v)))
    finally:
        b.kill()


def long_sessions(ctx, varlink, vh, tmp, ncalls):
    cap_addr = "unix:" + os.path.join(tmp, "cap")
    e = vlib.base_env()
    e["VH_PROCESS_SERVICE"] = "1"
    e["VH_MAX_WORKERS"] = "6"
    capsvc = subprocess.Popen([vh, "serve", cap_addr], env=e, stdout=subprocess.DEVNULL, stderr=subprocess.DEVNULL)
    res2 = None
    try:
        t0 = time.time()
        while not os.path.exists(cap_addr[5:]) and time.time() - t0 < 10:
            time.sleep(0.01)
        res2 = fakesvc.FakeService("unix", fakesvc.resolver_handler({"org.verif.t": cap_addr, "org.verif.gen": cap_addr}), path=os.path.join(tmp, "resolver2"))
        b = Bridge([varlink, "-R", res2.address, "bridge"])
        ctx.case(("resolver", "long-session", ncalls))
        ctx.count("long_resolver_sessions")
        for i in range(ncalls):
            if i % 5 == 4:
                req = {"method": "org.verif.gen.Add", "parameters": {"a": i, "b": 1, "token": "L%d" % i}}
            else:
                req = {"method": "org.verif.t.Echo", "parameters": {"token": "L%d" % i}}
            b.write(json.dumps(req).encode() + b"\0")
            frames = b.read_frames(1, timeout=15)
            ctx.count("reply_frames_observed", len(frames))
            ok = False
            if frames:
                try:
                    ok = ("L%d" % i) in json.dumps(json.loads(frames[0].decode()))
                except ValueError:
                    ok = False
            if not ok:
                ctx.violation("c18:resolver:long-session-call-unanswered", {"engine": "c18", "mode": "resolver", "behaviour": "long-session", "call_number": i + 1, "service_max_connections": 6,
                              "message": "call #%d of a one-at-a-time session got %s (the service serves at most 6 connections at a time; a direct client can make any number of calls)" % (i + 1, ("reply %r" % frames[0][:200]) if frames else "no reply within 15 s"),
                              "stderr": b.err.decode("utf-8", "replace")[-300:]})
                b.kill()
                return
        rc, _left = b.close_and_wait()
        if rc != 0:
            ctx.violation("c18:resolver:abnormal-exit:%s:long-session" % ("hang" if rc is None else "exit%d" % rc), {"engine": "c18", "mode": "resolver", "behaviour": "long-session", "message": "exit status %r after %d calls" % (rc, ncalls)})
    finally:
        capsvc.kill()
        capsvc.wait()
        if res2 is not None:
            res2.stop()


def vanish_case(ctx, mode, cmd, name, ms, more):
    req = {"method": name + ".Slow", "parameters": {"ms": ms}}
    if more:
        req["more"] = True
    flood = ms == 800 and more
    if flood:
        # the service streams 400 KB, the client reads nothing: the bridge is blocked writing to
        # the client when the client goes away
        req = {"method": name + ".Flood", "parameters": {}, "more": True}
    b = Bridge(cmd)
    b.write(json.dumps(req).encode() + b"\0")
    time.sleep(0.5 if flood else 0.02)
    rc = b.vanish_and_wait()
    ctx.case((mode, "client-vanishes", ms, more))
    ctx.count("client_vanishes_sessions")
    desc = {"engine": "c18", "mode": mode, "behaviour": "client-vanishes-while-a-reply-is-outstanding", "request": req, "cmd": cmd[1:]}
    if rc is None:
        ctx.violation("c18:%s:bridge-does-not-exit" % mode, dict(desc, message="still running 20 s after the client closed both its ends"))
    elif rc != 0:
        ctx.violation("c18:%s:abnormal-exit:%s:client-vanishes" % (mode, ("signal%d" % -rc) if rc < 0 else "exit%d" % rc), dict(desc, message="exit status %d; a client hanging up is the normal end of a session" % rc, stderr=b.err.decode("utf-8", "replace")[-400:]))


def hangup_case(ctx, mode, cmd, name, n, read_delay, svcs):
    req = {"method": name + ".Bye", "parameters": {"n": n}}
    want = {"parameters": {"echo": "y" * n, "svc": name}}
    for s in svcs.values():
        s.clear()
    b = Bridge(cmd)
    b.write(json.dumps(req).encode() + b"\0")
    if read_delay:
        time.sleep(read_delay)
    frames = b.read_frames(1, timeout=20)
    # whatever else the bridge writes before it exits
    t0 = time.time()
    while b.p.poll() is None and not b.eof and time.time() - t0 < 3:
        b.pump(0.1)
    partial = b.buf
    rc, left = b.close_and_wait()
    ctx.case((mode, "service-hangs-up", n, read_delay))
    ctx.count("service_hangs_up_sessions")
    desc = {"engine": "c18", "mode": mode, "behaviour": "service-hangs-up-behind-its-reply", "reply_bytes": len(json.dumps(want)), "client_read_delay_s": read_delay, "cmd": cmd[1:]}
    got = None
    if frames:
        try:
            got = json.loads(frames[0].decode())
        except ValueError:
            got = None
    ctx.count("reply_frames_observed", len(frames))
    if got != want:
        have = len(frames[0]) if frames else max(len(partial), len(left))
        ctx.violation("c18:%s:reply-truncated-when-service-hangs-up" % mode, dict(desc, message="the service wrote a %d-byte reply and closed; the client received %d bytes of it (bridge exit status %s)" % (len(json.dumps(want)) + 1, have, rc), stderr=b.err.decode("utf-8", "replace")[-300:]))


def close_early_case(ctx, mode, cmd, seq, table, svcs, rng):
    """client writes everything and closes at once: every byte it sent must still be forwarded
    and every reply delivered before the bridge exits (successfully)"""
    expected = []
    try:
        for (name, req) in seq:
            expected.append(direct(table[name], req))
    except (OSError, ValueError) as e:
        ctx.inconc({"direct reference failed": repr(e)})
        return
    for s in svcs.values():
        s.clear()
    b = Bridge(cmd)
    stream = b"".join(json.dumps(r).encode() + b"\0" for _, r in seq)
    b.write(stream)
    rc, left = b.close_and_wait()
    # everything the bridge wrote before exiting
    out = left
    frames = [f for f in out.split(b"\0") if f]
    got_v = []
    for g in frames:
        try:
            got_v.append(json.loads(g.decode()))
        except ValueError:
            got_v.append({"unparsable": repr(g[:100])})
    exp_flat = [f for fr in expected for f in fr]
    canon(got_v)
    canon(exp_flat)
    time.sleep(0.05)
    seen = []
    for n, s in svcs.items():
        seen.extend(r for r in s.requests() if not r.get("method", "").startswith("org.varlink.service.GetInfo"))
    sent = [r for _, r in seq]
    desc = {"engine": "c18", "mode": mode, "behaviour": "close-right-after-last-request", "requests": sent, "cmd": cmd[1:]}
    ctx.case((mode, "close-early", json.dumps(sent, sort_keys=True)[:300]))
    ctx.count("close_early_sessions")
    # a flag written `false` or `null` is an unset flag: the same request (resolver mode re-encodes
    # what it forwards)
    def nf(r):
        return {k: v for k, v in r.items() if not (k in ("more", "oneway", "upgrade") and not v)}
    seen_n = [nf(r) for r in seen]
    missing = [r for r in sent if nf(r) not in seen_n]
    if rc is None:
        ctx.violation("c18:%s:bridge-does-not-exit" % mode, dict(desc, message="still running 20 s after the client closed"))
    elif missing and mode == "bridge":
        # through a second bridge: the outer bridge did forward every byte to the inner one; the
        # inner one stops on the I/O error caused by the outer's shutdown, which the statement allows
        ctx.count("info_nested_bridge_requests_not_served_after_early_close")
    elif missing:
        ctx.violation("c18:%s:bytes-received-but-not-forwarded:%s" % (mode, "oneway-last" if sent[-1].get("oneway") else "call-last"), dict(desc, message="%d request(s) the client had written before closing never reached a service: %s" % (len(missing), json.dumps(missing)[:300]), exit=rc, stderr=b.err.decode("utf-8", "replace")[-500:]))
    elif rc == 0 and got_v != exp_flat:
        # not required by the statement (only bytes already received must be forwarded); reported
        ctx.count("info_replies_not_delivered_when_client_closes_early")
    if rc is not None and rc != 0 and not missing:
        ctx.violation("c18:%s:abnormal-exit:%s:close-early" % (mode, ("signal%d" % -rc) if rc < 0 else "exit%d" % rc), dict(desc, message="exit status %d" % rc, stderr=b.err.decode("utf-8", "replace")[-500:]))
