"""Shared orchestration for bin/check: builds, dispatch, evidence/violation helpers for the
process-level (Python) engines."""
import hashlib
import json
import os
import subprocess
import sys
import time

VERIF = os.environ.get("VERIF_DIR") or os.path.abspath(os.path.join(os.path.dirname(os.path.abspath(__file__)), ".."))
os.environ["VERIF_DIR"] = VERIF
REPO = os.environ.get("VERIF_REPO", "/repo")
GUARD = "--cfg varlink_rust_verif"

RUST_ENGINE = {"C08", "C09", "C01", "C02", "C03", "C04", "C05", "C06", "C07", "C10", "C11", "C12", "C13", "C14", "C15", "C17"}
NEEDS_REPO_BINS = {"C10": ["varlink-cli"], "C09": ["varlink_generator"], "C02": ["ping"], "C06": ["ping"]}
PY_ENGINE = {"C16": "c16", "C18": "c18", "C19": "c19", "C20": "c20"}


def base_env():
    e = dict(os.environ)
    e["CARGO_NET_OFFLINE"] = "true"
    e["VERIF_DIR"] = VERIF
    e.pop("RUSTFLAGS", None)
    return e


def target_dir(mode):
    t = os.path.join(VERIF, "target", mode)
    if REPO != "/repo":
        t += "-alt-" + hashlib.sha1(REPO.encode()).hexdigest()[:8]
    return t


def paths_override():
    """cargo --config paths override: substitute another tree for the /repo path deps."""
    if REPO == "/repo":
        return []
    crates = ["varlink", "varlink_parser", "varlink_generator", "varlink_stdinterfaces", "varlink_derive"]
    lst = ",".join('"%s/%s"' % (REPO, c) for c in crates)
    return ["--config", "paths=[%s]" % lst]


def run(cmd, env=None, cwd=None, timeout=None, quiet=False):
    p = subprocess.run(cmd, env=env, cwd=cwd, stdout=subprocess.PIPE, stderr=subprocess.STDOUT, timeout=timeout)
    out = p.stdout.decode("utf-8", "replace")
    if not quiet and p.returncode != 0:
        sys.stdout.write(out[-6000:])
    return p.returncode, out


def build_harness(mode="hooks"):
    """Build the harness against REPO's current working tree. Returns path of the vh binary
    or None (build failure => the run is inconclusive, not a violation)."""
    if mode == "hooks" and os.environ.get("VERIF_SANITIZER") == "asan":
        mode = "asan"
    if mode == "hooks" and os.environ.get("VERIF_SANITIZER") == "cov":
        mode = "cov"
    env = base_env()
    tdir = target_dir(mode)
    env["CARGO_TARGET_DIR"] = tdir
    cmd = ["cargo"]
    extra = []
    sub = "debug"
    if mode == "hooks":
        env["RUSTFLAGS"] = GUARD
    elif mode == "tsan":
        cmd = ["cargo", "+nightly"]
        env["RUSTFLAGS"] = GUARD + " -Zsanitizer=thread"
        extra = ["-Zbuild-std", "--target", "x86_64-unknown-linux-gnu"]
        sub = "x86_64-unknown-linux-gnu/debug"
    elif mode == "asan":
        cmd = ["cargo", "+nightly"]
        env["RUSTFLAGS"] = GUARD + " -Zsanitizer=address -Cforce-frame-pointers=yes"
        extra = ["--target", "x86_64-unknown-linux-gnu"]
        sub = "x86_64-unknown-linux-gnu/debug"
    elif mode == "cov":
        # source-based coverage of the workloads (bin/coverage): not a check, a map of what the monitors reached
        cmd = ["cargo", "+nightly"]
        env["RUSTFLAGS"] = GUARD + " -Cinstrument-coverage"
    cmd += ["build", "--offline", "--manifest-path", os.path.join(VERIF, "harness", "Cargo.toml")] + extra + paths_override()
    t0 = time.time()
    rc, out = run(cmd, env=env, quiet=True)
    if rc != 0:
        sys.stdout.write(out[-8000:])
        return None
    b = os.path.join(tdir, sub, "vh")
    sys.stdout.write("[build] harness mode=%s repo=%s %.1fs\n" % (mode, REPO, time.time() - t0))
    return b


def build_repo_bins(profile="debug", bins=None):
    """Build the repository's own binaries from REPO into target/repo. Returns dir or None.
    With VERIF_SANITIZER=asan in the environment the AddressSanitizer build is used instead."""
    if os.environ.get("VERIF_SANITIZER") == "asan":
        return build_repo_bins_asan(bins)
    env = base_env()
    tdir = target_dir("repo")
    env["CARGO_TARGET_DIR"] = tdir
    env["RUSTFLAGS"] = GUARD
    cmd = ["cargo", "build", "--offline", "--manifest-path", os.path.join(REPO, "Cargo.toml")]
    if os.environ.get("VERIF_SANITIZER") == "cov":
        tdir = target_dir("repo-cov")
        env["CARGO_TARGET_DIR"] = tdir
        env["RUSTFLAGS"] = GUARD + " -Cinstrument-coverage"
        cmd = ["cargo", "+nightly", "build", "--offline", "--manifest-path", os.path.join(REPO, "Cargo.toml")]
    if profile == "release":
        cmd.append("--release")
    for b in bins or []:
        cmd += ["-p", b]
    t0 = time.time()
    rc, out = run(cmd, env=env, quiet=True)
    if rc != 0:
        sys.stdout.write(out[-8000:])
        return None
    sys.stdout.write("[build] repo binaries profile=%s %.1fs\n" % (profile, time.time() - t0))
    return os.path.join(tdir, profile)


def clean_replays(pid, tier):
    import glob
    seed = os.environ.get("VERIF_SEED", "1")
    for f in glob.glob(os.path.join(VERIF, "replays", pid, "%s-%s-*.json" % (tier, seed))):
        try:
            os.unlink(f)
        except OSError:
            pass


def build_repo_bins_asan(bins=None):
    env = base_env()
    tdir = target_dir("repo-asan")
    env["CARGO_TARGET_DIR"] = tdir
    env["RUSTFLAGS"] = GUARD + " -Zsanitizer=address -Cforce-frame-pointers=yes"
    cmd = ["cargo", "+nightly", "build", "--offline", "--target", "x86_64-unknown-linux-gnu", "--manifest-path", os.path.join(REPO, "Cargo.toml")]
    for b in bins or []:
        cmd += ["-p", b]
    t0 = time.time()
    rc, out = run(cmd, env=env, quiet=True)
    if rc != 0:
        sys.stdout.write(out[-4000:])
        return None
    sys.stdout.write("[build] repo binaries with AddressSanitizer %.1fs\n" % (time.time() - t0))
    return os.path.join(tdir, "x86_64-unknown-linux-gnu", "debug")


def dispatch(pid, tier, replay):
    if not replay:
        clean_replays(pid, tier)
    if pid in RUST_ENGINE:
        vh = build_harness("hooks")
        if vh is None:
            print("INCONCLUSIVE property=%s reason=harness build failed" % pid)
            return 2
        cmd = [vh, pid, tier]
        if replay:
            cmd += ["--replay", replay]
        env = base_env()
        if pid in NEEDS_REPO_BINS and (not replay or pid == "C02"):
            d = build_repo_bins("debug", NEEDS_REPO_BINS[pid])
            if d is None:
                print("INCONCLUSIVE property=%s reason=repository binaries failed to build" % pid)
                return 2
            env["VERIF_REPO_BIN"] = d
        env["VERIF_REPO"] = REPO
        # own process group + overall time limit: a check that cannot finish (a broken tree can make
        # every case wait for its watchdog) is inconclusive, and no child process may be left behind
        limit = int(os.environ.get("VERIF_CHECK_TIMEOUT", "1800" if tier == "quick" else "21600"))
        def _die_with_parent():
            try:
                import ctypes
                ctypes.CDLL("libc.so.6").prctl(1, 9)  # PR_SET_PDEATHSIG, SIGKILL
            except Exception:  # noqa
                pass

        t_start = time.time()
        p = subprocess.Popen(cmd, env=env, start_new_session=True, preexec_fn=_die_with_parent)
        try:
            rc = p.wait(timeout=limit)
        except subprocess.TimeoutExpired:
            rc = None
        finally:
            try:
                os.killpg(p.pid, 9)
            except OSError:
                pass
        if rc is None:
            # violations the engine witnessed (and printed, with their replay files) before it got
            # stuck stay violations: only a run that showed nothing is inconclusive
            import glob as _glob
            seen = [f for f in _glob.glob(os.path.join(VERIF, "replays", pid, "%s-%s-*.json" % (tier, os.environ.get("VERIF_SEED", "1"))))
                    if os.path.getmtime(f) >= t_start - 1]
            if seen and not replay:
                print("NOTE property=%s the check exceeded its time limit of %d s after reporting %d violation(s)" % (pid, limit, len(seen)))
                return 1
            print("INCONCLUSIVE property=%s reason=check exceeded its time limit of %d s" % (pid, limit))
            return 2
        if rc not in (0, 1, 2):
            # the engine itself died (abort/panic): not a verdict
            print("INCONCLUSIVE property=%s reason=engine exited with status %d" % (pid, rc))
            return 2
        if rc == 0 and tier == "thorough" and not replay:
            rc = overlays(pid, tier)
        return rc
    if pid in PY_ENGINE:
        mod = __import__(PY_ENGINE[pid])
        rc = mod.main(tier, replay)
        if rc == 0 and tier == "thorough" and not replay and pid in ("C16", "C18"):
            rc = overlays(pid, tier)
        return rc
    print("unknown property %s" % pid)
    return 3


def overlays(pid, tier):
    """Sanitizer overlays (thorough tier only); implemented in overlays.py."""
    try:
        import overlays as ov
    except ImportError:
        return 0
    return ov.run(pid, tier)


# ---------------------------------------------------------------- evidence for py engines


def load_findings():
    out = []
    p = os.path.join(VERIF, "known_findings.txt")
    if not os.path.exists(p):
        return out
    for line in open(p):
        line = line.strip()
        if not line.startswith("finding:"):
            continue
        rest = line[len("finding:"):]
        head, _, what = rest.partition("::")
        prop = sig = ""
        for tok in head.split():
            if tok.startswith("property="):
                prop = tok[9:]
            elif tok.startswith("sig="):
                sig = tok[4:]
        if prop and sig:
            out.append((prop, sig, what.strip()))
    return out


class Ctx:
    def __init__(self, pid, tier, level):
        self.pid, self.tier, self.level = pid, tier, level
        self.seed = int(os.environ.get("VERIF_SEED", "1"))
        self.t0 = time.time()
        self.evaluations = 0
        self.distinct = set()
        self.samples = []
        self.counters = {}
        self.extra = {}
        self.assumptions = []
        self.rule = ""
        self.violations = 0
        self.viol_written = 0
        self.viol_sigs = set()
        self.known_seen = {}
        self.inconclusive = 0
        self.inconclusive_samples = []
        self.findings = [(p, s, w) for (p, s, w) in load_findings() if p == pid]
        self.replay_mode = False
        self.exhaustive = None

    def case(self, descriptor=None):
        self.evaluations += 1
        if descriptor is not None:
            self.distinct.add(hashlib.sha1(repr(descriptor).encode()).hexdigest())

    def count(self, k, n=1):
        self.counters[k] = self.counters.get(k, 0) + n

    def sample(self, v, cap=12):
        if len(self.samples) < cap:
            self.samples.append(v)

    def inconc(self, why):
        self.inconclusive += 1
        if len(self.inconclusive_samples) < 5:
            self.inconclusive_samples.append(why)

    def violation(self, sig, witness):
        for (_p, s, what) in self.findings:
            if s == sig:
                n = self.known_seen.get(sig, 0)
                self.known_seen[sig] = n + 1
                if n == 0:
                    print("KNOWN-FINDING: property=%s sig=%s %s" % (self.pid, sig, what))
                return
        self.violations += 1
        new = sig not in self.viol_sigs
        self.viol_sigs.add(sig)
        if self.viol_written >= 20 and not new:
            return
        d = os.path.join(VERIF, "replays", self.pid)
        os.makedirs(d, exist_ok=True)
        path = os.path.join(d, "%s-%d-%d.json" % (self.tier, self.seed, self.viol_written))
        self.viol_written += 1
        with open(path, "w") as f:
            json.dump({"property": self.pid, "sig": sig, "tier": self.tier, "seed": self.seed, "witness": witness}, f, indent=1, default=repr)
        print("VIOLATION property=%s replay=%s" % (self.pid, path))
        print("  sig=%s %s" % (sig, json.dumps(witness, default=repr)[:700]))
        sys.stdout.flush()

    def finish(self, min_cases):
        wall = time.time() - self.t0
        cov = {
            "evaluations": self.evaluations,
            "distinct_nontrivial": len(self.distinct),
            "rule": self.rule,
            "samples": self.samples,
            "inconclusive_cases": self.inconclusive,
            "known_findings_seen": self.known_seen,
        }
        if self.exhaustive is not None:
            cov["exhaustive"] = self.exhaustive
        if self.inconclusive_samples:
            cov["inconclusive_samples"] = self.inconclusive_samples
        cov.update(self.counters)
        cov.update(self.extra)
        doc = {
            "property_id": self.pid,
            "tier": self.tier,
            "seed": self.seed,
            "level": self.level,
            "coverage": cov,
            "assumptions": self.assumptions,
            "wall_s": round(wall, 3),
            "violations": self.violations,
        }
        if not self.replay_mode and "VH_NO_EVIDENCE" not in os.environ:
            os.makedirs(os.path.join(VERIF, "evidence"), exist_ok=True)
            with open(os.path.join(VERIF, "evidence", self.pid + ".json"), "w") as f:
                json.dump(doc, f, indent=1, default=repr)
                f.write("\n")
        print("[%s] tier=%s seed=%d evaluations=%d distinct_nontrivial=%d violations=%d inconclusive=%d known_findings=%d wall=%.1fs %s" % (
            self.pid, self.tier, self.seed, self.evaluations, len(self.distinct), self.violations, self.inconclusive,
            len(self.known_seen), wall, " ".join("%s=%s" % kv for kv in sorted(self.counters.items()))))
        if self.violations:
            return 1
        if self.replay_mode:
            print("REPLAY property=%s result=no-violation" % self.pid)
            return 0
        if self.evaluations < min_cases or len(self.distinct) < 2:
            print("INCONCLUSIVE property=%s reason=observed too little (evaluations=%d < %d or distinct=%d)" % (self.pid, self.evaluations, min_cases, len(self.distinct)))
            return 2
        if self.inconclusive * 100 > self.evaluations:
            print("INCONCLUSIVE property=%s reason=more than 1%% of the cases were individually inconclusive (%d)" % (self.pid, self.inconclusive))
            return 2
        return 0


class Rng:
    """SplitMix64, same as the Rust side."""

    def __init__(self, seed):
        self.s = (seed ^ 0x9E3779B97F4A7C15) & 0xFFFFFFFFFFFFFFFF
        self.next()

    def next(self):
        self.s = (self.s + 0x9E3779B97F4A7C15) & 0xFFFFFFFFFFFFFFFF
        z = self.s
        z = ((z ^ (z >> 30)) * 0xBF58476D1CE4E5B9) & 0xFFFFFFFFFFFFFFFF
        z = ((z ^ (z >> 27)) * 0x94D049BB133111EB) & 0xFFFFFFFFFFFFFFFF
        return z ^ (z >> 31)

    def below(self, n):
        return self.next() % n if n > 0 else 0

    def range(self, lo, hi):
        return lo + self.below(hi - lo + 1)

    def chance(self, num, den):
        return self.below(den) < num

    def pick(self, seq):
        return seq[self.below(len(seq))]
