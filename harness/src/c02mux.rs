//! C02, process level: the repository's own reference caller of `handle()` — the multiplex loop
//! of examples/ping (`ping -m`), which re-feeds the returned tail — driven over a real socket.
//! The segmentation is the sender's write/pause schedule; the oracle is a model of the ping
//! service (Ping echoes, unknown method/interface errors, oneway is silent) applied to the whole
//! stream: whatever the schedule, the reply bytes must be those, complete, by the time the
//! service closes after our half-close.
use crate::core::*;
use crate::model::canon_frames;
use serde_json::{json, Value};
use std::io::{Read, Write};
use std::os::linux::net::SocketAddrExt;
use std::os::unix::net::{SocketAddr, UnixStream};
use std::process::{Child, Command, Stdio};
use std::sync::atomic::{AtomicUsize, Ordering};
use std::time::{Duration, Instant};

static NEXT: AtomicUsize = AtomicUsize::new(0);

pub struct Mux {
    child: Child,
    pub name: String,
}

impl Mux {
    pub fn start(bin_dir: &str) -> Result<Mux, String> {
        let name = format!("vh-c02mux-{}-{}", std::process::id(), NEXT.fetch_add(1, Ordering::SeqCst));
        let child = Command::new(format!("{}/ping", bin_dir))
            .arg(format!("--varlink=unix:@{}", name))
            .arg("-m")
            .stdin(Stdio::null())
            .stdout(Stdio::null())
            .stderr(match std::env::var("VH_MUX_STDERR") { Ok(p) => std::fs::File::create(p).map(Stdio::from).unwrap_or_else(|_| Stdio::null()), Err(_) => Stdio::null() })
            .spawn()
            .map_err(|e| format!("cannot start {}/ping: {}", bin_dir, e))?;
        let m = Mux { child, name };
        let t0 = Instant::now();
        loop {
            if m.connect().is_ok() {
                return Ok(m);
            }
            if t0.elapsed() > Duration::from_secs(20) {
                return Err("ping -m did not start listening within 20 s".into());
            }
            std::thread::sleep(Duration::from_millis(20));
        }
    }
    pub fn connect(&self) -> std::io::Result<UnixStream> {
        let addr = SocketAddr::from_abstract_name(self.name.as_bytes())?;
        UnixStream::connect_addr(&addr)
    }
}

impl Drop for Mux {
    fn drop(&mut self) {
        let _ = self.child.kill();
        let _ = self.child.wait();
    }
}

#[derive(Clone, Debug)]
enum R {
    Ping { token: String, oneway: bool, more: bool },
    GetInfo,
    NoMethod,
    NoIface,
}

fn req_bytes(r: &R) -> Vec<u8> {
    let v = match r {
        R::Ping { token, oneway, more } => {
            let mut o = json!({"method": "org.example.ping.Ping", "parameters": {"ping": token}});
            if *oneway {
                o["oneway"] = json!(true);
            }
            if *more {
                o["more"] = json!(true);
            }
            o
        }
        R::GetInfo => json!({"method": "org.varlink.service.GetInfo"}),
        R::NoMethod => json!({"method": "org.example.ping.Nope", "parameters": {}}),
        R::NoIface => json!({"method": "org.example.nope.Ping", "parameters": {"ping": "x"}}),
    };
    let mut b = serde_json::to_vec(&v).unwrap();
    b.push(0);
    b
}

fn expected(reqs: &[R]) -> Vec<Value> {
    let mut out = Vec::new();
    for r in reqs {
        match r {
            R::Ping { oneway: true, .. } => {}
            R::Ping { token, .. } => out.push(json!({"parameters": {"pong": token}})),
            R::GetInfo => out.push(json!({"parameters": {"vendor": "org.varlink", "product": "test ping service", "version": "0.1", "url": "http://varlink.org", "interfaces": ["org.varlink.service", "org.example.ping"]}})),
            R::NoMethod => out.push(json!({"error": "org.varlink.service.MethodNotFound", "parameters": {"method": "org.example.ping.Nope"}})),
            R::NoIface => out.push(json!({"error": "org.varlink.service.InterfaceNotFound", "parameters": {"interface": "org.example.nope"}})),
        }
    }
    out
}

/// A request sequence whose encoding is exactly `target` bytes long (the last Ping is padded),
/// or of natural length when `target` is None.
fn gen_stream(rng: &mut Rng, target: Option<usize>, tag: &str) -> (Vec<R>, Vec<u8>) {
    let mut reqs = Vec::new();
    let mut bytes = Vec::new();
    let n = rng.range(1, 6);
    for i in 0..n {
        let r = match rng.below(10) {
            0 => R::GetInfo,
            1 => R::NoMethod,
            2 => R::NoIface,
            3 => R::Ping { token: format!("{}o{}", tag, i), oneway: true, more: false },
            4 => R::Ping { token: format!("{}m{}", tag, i), oneway: false, more: true },
            5 => R::Ping { token: format!("{}L{}{}", tag, i, "x".repeat(*rng.pick(&[100usize, 3000, 8100, 8192, 9000, 17000]))), oneway: false, more: false },
            _ => R::Ping { token: format!("{}p{}", tag, i), oneway: false, more: false },
        };
        bytes.extend(req_bytes(&r));
        reqs.push(r);
    }
    if let Some(t) = target {
        // drop requests until a padded Ping can make up the difference
        let overhead = req_bytes(&R::Ping { token: String::new(), oneway: false, more: false }).len() + tag.len() + 1;
        while !reqs.is_empty() && bytes.len() + overhead > t {
            let l = req_bytes(reqs.last().unwrap()).len();
            bytes.truncate(bytes.len() - l);
            reqs.pop();
        }
        let pad = t - bytes.len() - overhead;
        let r = R::Ping { token: format!("{}z{}", tag, "y".repeat(pad)), oneway: false, more: false };
        bytes.extend(req_bytes(&r));
        reqs.push(r);
        assert_eq!(bytes.len(), t);
    }
    (reqs, bytes)
}

fn gen_cuts(rng: &mut Rng, len: usize) -> Vec<usize> {
    let mut cuts: Vec<usize> = match rng.below(8) {
        0 => vec![],
        1 => vec![rng.range(1, len - 1)],
        2 => (1..=(len - 1) / 8192).map(|k| k * 8192).collect(),
        3 => vec![len - 1],
        4 => (1..=(len - 1) / 1000).map(|k| k * 1000).collect(),
        5 => vec![8192usize.min(len - 1), (8192 + rng.range(1, 200)).min(len - 1)],
        _ => (0..rng.range(2, 6)).map(|_| rng.range(1, len - 1)).collect(),
    };
    cuts.sort();
    cuts.dedup();
    cuts.retain(|&c| c > 0 && c < len);
    cuts
}

struct Outcome {
    got: Vec<u8>,
    eof: bool,
    note: String,
}

/// Write `bytes` cut at `cuts` with a pause between pieces, then either half-close and read to
/// EOF, or (keep_open) wait until `want_bytes` have arrived.
fn drive(mux: &Mux, bytes: &[u8], cuts: &[usize], pause_us: u64, keep_open: Option<usize>, wait: Duration) -> Result<Outcome, String> {
    let mut s = mux.connect().map_err(|e| format!("connect: {}", e))?;
    let mut rd = s.try_clone().map_err(|e| e.to_string())?;
    rd.set_read_timeout(Some(Duration::from_millis(50))).ok();
    let want = keep_open;
    let reader = std::thread::spawn(move || {
        let mut got = Vec::new();
        let mut buf = [0u8; 65536];
        let t0 = Instant::now();
        let mut eof = false;
        loop {
            match rd.read(&mut buf) {
                Ok(0) => {
                    eof = true;
                    break;
                }
                Ok(n) => got.extend_from_slice(&buf[..n]),
                Err(e) if matches!(e.kind(), std::io::ErrorKind::WouldBlock | std::io::ErrorKind::TimedOut | std::io::ErrorKind::Interrupted) => {}
                Err(_) => {
                    eof = true;
                    break;
                }
            }
            if let Some(w) = want {
                if got.len() >= w {
                    break;
                }
            }
            if t0.elapsed() > wait {
                break;
            }
        }
        (got, eof)
    });
    let mut prev = 0;
    let mut note = String::new();
    for &c in cuts.iter().chain(std::iter::once(&bytes.len())) {
        if let Err(e) = s.write_all(&bytes[prev..c]) {
            note = format!("write failed at {}: {}", prev, e);
            break;
        }
        prev = c;
        if c != bytes.len() && pause_us > 0 {
            std::thread::sleep(Duration::from_micros(pause_us));
        }
    }
    if keep_open.is_none() {
        let _ = s.shutdown(std::net::Shutdown::Write);
    }
    let (got, eof) = reader.join().map_err(|_| "reader thread panicked".to_string())?;
    Ok(Outcome { got, eof, note })
}

fn frames_equal(got: &[u8], want: &[Value]) -> Result<(), String> {
    let frames = canon_frames(got);
    if frames.len() != want.len() {
        return Err(format!("{} reply frames, expected {}", frames.len(), want.len()));
    }
    for (i, (g, w)) in frames.iter().zip(want).enumerate() {
        if g != w {
            return Err(format!("reply {} is {} but expected {}", i, truncate(&g.to_string(), 200), truncate(&w.to_string(), 200)));
        }
    }
    if !got.is_empty() && got.last() != Some(&0) {
        return Err("reply bytes do not end at a message boundary".into());
    }
    Ok(())
}

pub fn case(ctx: &Ctx, mux: &Mux, reqs_desc: &str, bytes: &[u8], want: &[Value], cuts: &[usize], pause_us: u64, keep_open: bool) {
    let wit = |m: String| json!({"engine": "c02-mux", "stream_hex": hex(bytes), "cuts": cuts, "pause_us": pause_us, "keep_open": keep_open, "requests": reqs_desc, "expected_replies": want.len(), "message": m});
    let nontrivial = !cuts.is_empty() || bytes.len() % 8192 == 0;
    ctx.case(if nontrivial { Some(hash_of(&("mux", hash_of(bytes), cuts, keep_open))) } else { None });
    ctx.count("mux_socket_cases", 1);
    ctx.count("mux_bytes_sent", bytes.len() as u64);
    if !keep_open {
        // half-close: everything the service will ever say has been said when it closes
        match drive(mux, bytes, cuts, pause_us, None, Duration::from_secs(60)) {
            Err(e) => ctx.inconclusive(json!(format!("c02-mux: {}", e))),
            Ok(o) if !o.eof => ctx.inconclusive(json!("c02-mux: the service did not close within 60 s of our half-close")),
            Ok(o) => {
                ctx.count("mux_reply_bytes_observed", o.got.len() as u64);
                if let Err(e) = frames_equal(&o.got, want) {
                    ctx.violation("c02:mux:replies-differ-from-whole-stream", wit(format!("{} {} (got {} bytes: {})", e, o.note, o.got.len(), truncate(&show(&o.got), 400))));
                }
            }
        }
        return;
    }
    // connection kept open: the replies must arrive without any further byte from us.  A
    // wall-clock wait cannot be a verdict by itself, so a shortfall is only a violation when
    // it repeats three times and the missing replies do exist (they appear once we half-close
    // or never): otherwise inconclusive.
    let want_len: usize = want.iter().map(|w| serde_json::to_vec(w).unwrap().len() + 1).sum();
    let mut short = 0;
    let mut last = String::new();
    for _ in 0..3 {
        match drive(mux, bytes, cuts, pause_us, Some(want_len), Duration::from_secs(4)) {
            Err(e) => {
                ctx.inconclusive(json!(format!("c02-mux: {}", e)));
                return;
            }
            Ok(o) => {
                ctx.count("mux_reply_bytes_observed", o.got.len() as u64);
                if canon_frames(&o.got).len() >= want.len() {
                    if let Err(e) = frames_equal(&o.got, want) {
                        ctx.violation("c02:mux:replies-differ-from-whole-stream", wit(format!("{} (got {})", e, truncate(&show(&o.got), 400))));
                    }
                    return;
                }
                short += 1;
                last = format!("{} of {} replies after 4 s with the connection open (got {})", canon_frames(&o.got).len(), want.len(), truncate(&show(&o.got), 300));
            }
        }
    }
    if short == 3 {
        ctx.violation("c02:mux:replies-withheld-while-connection-open", wit(last));
    }
}

pub fn run(ctx: &Ctx, bin_dir: &str) {
    let n = ctx.tier.pick(400usize, 6000usize);
    // One server per lane and one connection at a time on it: this check is about how the
    // reference caller segments ONE connection's input.  (Its bookkeeping for several
    // connections closing in the same poll round is outside C02 — see DESIGN.md 9.6.)
    par(8, |w| {
        let mux = match Mux::start(bin_dir) {
            Ok(m) => m,
            Err(e) => {
                ctx.inconclusive(json!(format!("c02-mux: {}", e)));
                return;
            }
        };
        let mut rng = Rng::lane(ctx.seed, 2600 + w as u64);
        let mut i = w;
        while i < n {
            let target = match rng.below(6) {
                0 => Some(8192),
                1 => Some(16384),
                2 => Some(*rng.pick(&[8191usize, 8193, 16383, 16385, 24576])),
                _ => None,
            };
            let tag = format!("c{}", i);
            let (reqs, bytes) = gen_stream(&mut rng, target, &tag);
            let want = expected(&reqs);
            let cuts = gen_cuts(&mut rng, bytes.len());
            let pause = *rng.pick(&[0u64, 200, 1000, 3000]);
            let keep_open = rng.chance(1, 4);
            let desc: Vec<String> = reqs.iter().map(|r| truncate(&format!("{:?}", r), 60)).collect();
            case(ctx, &mux, &desc.join(" "), &bytes, &want, &cuts, pause, keep_open);
            if ctx.want_sample() || rng.chance(1, 400) {
                ctx.sample(json!({"mux_stream_bytes": bytes.len(), "cuts": cuts, "pause_us": pause, "keep_open": keep_open, "requests": desc}));
            }
            if ctx.violations() >= 5 {
                break;
            }
            i += 8;
        }
    });
}

pub fn replay(ctx: &Ctx, w: &Value, bin_dir: &str) {
    let mux = match Mux::start(bin_dir) {
        Ok(m) => m,
        Err(e) => {
            ctx.inconclusive(json!(format!("c02-mux: {}", e)));
            return;
        }
    };
    let bytes = unhex(w.get("stream_hex").and_then(|v| v.as_str()).unwrap_or(""));
    let cuts: Vec<usize> = w.get("cuts").and_then(|v| v.as_array()).map(|a| a.iter().filter_map(|x| x.as_u64().map(|u| u as usize)).collect()).unwrap_or_default();
    // re-derive the expectation from the stream itself
    let mut want = Vec::new();
    for m in bytes.split(|b| *b == 0).filter(|m| !m.is_empty()) {
        if let Ok(v) = serde_json::from_slice::<Value>(m) {
            let method = v.get("method").and_then(|x| x.as_str()).unwrap_or("");
            let oneway = v.get("oneway").and_then(|x| x.as_bool()).unwrap_or(false);
            let r = match method {
                "org.example.ping.Ping" => R::Ping { token: v["parameters"]["ping"].as_str().unwrap_or("").to_string(), oneway, more: false },
                "org.varlink.service.GetInfo" => R::GetInfo,
                "org.example.ping.Nope" => R::NoMethod,
                _ => R::NoIface,
            };
            want.extend(expected(&[r]));
        }
    }
    let keep = w.get("keep_open").and_then(|v| v.as_bool()).unwrap_or(false);
    case(ctx, &mux, "replay", &bytes, &want, &cuts, w.get("pause_us").and_then(|v| v.as_u64()).unwrap_or(0), keep);
}
