//! C11: the parser accepts exactly the varlink grammar, rejects duplicates, mirrors the source.
use crate::core::*;
use crate::idl::*;
use serde_json::{json, Value};
use std::convert::TryFrom;
use varlink_parser::IDL;

#[derive(Debug)]
enum Got {
    Ok(Idl),
    ParseErr,
    IdlErr(String),
}

fn run_impl(text: &str) -> Result<Got, String> {
    let r = std::panic::catch_unwind(|| match IDL::try_from(text) {
        Ok(i) => Got::Ok(from_impl(&i)),
        Err(varlink_parser::Error::Parse { .. }) => Got::ParseErr,
        Err(varlink_parser::Error::Idl(s)) => Got::IdlErr(s),
    });
    r.map_err(|_| "panic".to_string())
}

/// Judge one text. `class` is only used for the evidence descriptor.
pub fn judge(ctx: &Ctx, text: &str, class: &str, near_miss: bool) {
    let b = bracket(text);
    let got = match run_impl(text) {
        Ok(g) => g,
        Err(_) => {
            ctx.case(Some(hash_of(&(text, class))));
            ctx.violation("c11:panic", json!({"engine": "c11", "text": text, "class": class, "message": "IDL::try_from panicked"}));
            return;
        }
    };
    let wit = |m: String| json!({"engine": "c11", "text": text, "class": class, "message": m, "implementation": format!("{:?}", got)});
    match &b {
        Bracket::Unspecified => {
            ctx.count("skipped_unspecified", 1);
            ctx.case(None);
        }
        Bracket::MustReject(why) => {
            ctx.count("reference_rejects", 1);
            ctx.case(if near_miss { Some(hash_of(&(text, "reject"))) } else { None });
            if let Got::Ok(_) | Got::IdlErr(_) = got {
                // IdlErr means the grammar accepted it
                let sig = if why.contains("interface name") { "c11:accepts-invalid-interface-name" } else { "c11:accepts-text-outside-grammar" };
                ctx.violation(sig, wit(format!("the reference grammar rejects this text ({}) but the parser accepted it", why)));
            }
        }
        Bracket::MustAccept(want) => {
            let dups = want.duplicates();
            if !dups.is_empty() {
                ctx.count("reference_duplicates", 1);
                ctx.case(Some(hash_of(&(text, "duplicate"))));
                match &got {
                    Got::IdlErr(msg) => {
                        for d in &dups {
                            if !msg.contains(&format!("`{}`", d)) {
                                ctx.violation("c11:duplicate-not-named", wit(format!("duplicated name {} is not named in the error {:?}", d, msg)));
                                return;
                            }
                        }
                    }
                    Got::Ok(_) => ctx.violation("c11:duplicate-accepted", wit(format!("member names {:?} are defined more than once but the text was accepted", dups))),
                    Got::ParseErr => ctx.violation("c11:rejects-valid-text", wit("grammatically valid text with duplicate members was rejected as a syntax error".into())),
                }
                return;
            }
            ctx.count("reference_accepts", 1);
            ctx.case(Some(hash_of(&(text, "accept"))));
            match &got {
                Got::Ok(i) => {
                    if let Some(d) = diff(&by_kind(want), i) {
                        ctx.violation("c11:structure-differs-from-source", wit(format!("structure does not mirror the source: {}", d)));
                    }
                }
                Got::ParseErr => {
                    let sig = if class.starts_with("interface-name") { "c11:rejects-valid-interface-name" } else { "c11:rejects-valid-text" };
                    ctx.violation(sig, wit("the reference grammar (strict layout) accepts this text but the parser rejected it".into()));
                }
                Got::IdlErr(m) => ctx.violation("c11:spurious-duplicate-error", wit(format!("no member name is defined twice, yet: {}", m))),
            }
        }
    }
}

fn norm_comments(i: &Idl) -> Idl {
    let f = |v: &Vec<String>| v.iter().map(|c| c.trim_end_matches(|x: char| is_ws(x)).to_string()).collect::<Vec<_>>();
    let mut o = i.clone();
    o.comments = f(&o.comments);
    for m in o.members.iter_mut() {
        m.comments = f(&m.comments);
    }
    o
}

fn all_strings(alphabet: &[&str], maxlen: usize, f: &mut dyn FnMut(&str)) {
    fn rec(alphabet: &[&str], cur: &mut String, left: usize, f: &mut dyn FnMut(&str)) {
        f(cur);
        if left == 0 {
            return;
        }
        for a in alphabet {
            let l = cur.len();
            cur.push_str(a);
            rec(alphabet, cur, left - 1, f);
            cur.truncate(l);
        }
    }
    rec(alphabet, &mut String::new(), maxlen, f);
}

pub fn main(ctx: &Ctx) -> i32 {
    ctx.set_rule("exhaustive: all interface names over {a,B,1,-,.} up to length 7; all field names / enum elements over {a,B,1,_} up to length 6 and member / type names over {A,b,1,_} up to length 5, in four positions each; all type expressions of up to 5 (quick) / 6 (thorough) tokens over {?, [], [string], int, T, (a:int), (a,b), ()}; all 9 ordered member-kind pairs x {same, different name} x 3 positions; a collision with any of 3-4 members of one kind declared in every order x 9 kind pairs x 3 positions; two duplicated names at once where one is spelled inside the other, inside the interface name or inside the diagnostic's wording x all kind combinations; generated: grammar-directed valid definitions rendered with 3 trivia levels, and single-token delete/insert/swap/substitute/duplicate mutants of them; each text is bracketed by a strict and a liberal hand-written recogniser; distinct = (text, class); non-trivial = accepted text, duplicate text, or a rejected text one edit away from an accepted one");
    ctx.assume("the grammar is reproduced from the published varlink rules from memory; interface names follow [A-Za-z]([-]*[A-Za-z0-9])*(\\.[A-Za-z0-9]([-]*[A-Za-z0-9])*)+");
    ctx.assume("pinned (regression only): the whitespace code points and the positions where the implementation's layout allows trivia; texts that only a liberal trivia policy accepts (several members on one line, blank before a comma, blanks before a trailing comment, unterminated final comment, zero members) are skipped_unspecified");
    // 1. interface names, exhaustive
    {
        let mut names: Vec<String> = Vec::new();
        all_strings(&["a", "B", "1", "-", "."], 7, &mut |s| names.push(s.to_string()));
        let nw = workers();
        par(nw, |w| {
            for (i, n) in names.iter().enumerate() {
                if i % nw != w || n.is_empty() {
                    continue;
                }
                let text = format!("interface {}\nmethod F()->()", n);
                judge(ctx, &text, "interface-name-exhaustive", true);
            }
        });
        ctx.count("interface_names_enumerated", names.len() as u64);
    }
    // 1b. field names / enum elements / member names, exhaustive over a small alphabet
    {
        let mut fields: Vec<String> = Vec::new();
        all_strings(&["a", "B", "1", "_"], 6, &mut |s| fields.push(s.to_string()));
        let mut names: Vec<String> = Vec::new();
        all_strings(&["A", "b", "1", "_"], 5, &mut |s| names.push(s.to_string()));
        let nw = workers();
        par(nw, |w| {
            for (i, n) in fields.iter().enumerate() {
                if i % nw != w || n.is_empty() {
                    continue;
                }
                let text = match i % 4 {
                    0 => format!("interface a.b\ntype T ({}: int)", n),
                    1 => format!("interface a.b\ntype T ({}, zz)", n),
                    2 => format!("interface a.b\nmethod F({}: int) -> ()", n),
                    _ => format!("interface a.b\nerror E (x: int, {}: (y: string))", n),
                };
                judge(ctx, &text, "field-name-exhaustive", true);
            }
            for (i, n) in names.iter().enumerate() {
                if i % nw != w || n.is_empty() {
                    continue;
                }
                let text = match i % 4 {
                    0 => format!("interface a.b\ntype {} (a: int)", n),
                    1 => format!("interface a.b\nmethod {}() -> ()", n),
                    2 => format!("interface a.b\nerror {} ()", n),
                    _ => format!("interface a.b\ntype T (a: {})\ntype Aa (b: int)", n),
                };
                judge(ctx, &text, "member-name-exhaustive", true);
            }
        });
        ctx.count("field_names_enumerated", fields.len() as u64);
        ctx.count("member_names_enumerated", names.len() as u64);
    }
    // 2. type expressions, exhaustive
    {
        let toks = ["?", "[]", "[string]", "int", "T", "(a:int)", "(a,b)", "()"];
        let mut exprs: Vec<String> = Vec::new();
        all_strings(&toks, ctx.tier.pick(5, 6), &mut |s| exprs.push(s.to_string()));
        let nw = workers();
        par(nw, |w| {
            for (i, e) in exprs.iter().enumerate() {
                if i % nw != w || e.is_empty() {
                    continue;
                }
                let text = format!("interface a.b\ntype T (x: {})", e);
                judge(ctx, &text, "type-expression-exhaustive", true);
            }
        });
        ctx.count("type_expressions_enumerated", exprs.len() as u64);
    }
    // 3. duplicate detection across all kind pairs
    {
        let mk = |k: MKind, name: &str| match k {
            MKind::Type => format!("type {} (a: int)", name),
            MKind::Method => format!("method {}() -> ()", name),
            MKind::Error => format!("error {} (a: int)", name),
        };
        for k1 in [MKind::Type, MKind::Method, MKind::Error] {
            for k2 in [MKind::Type, MKind::Method, MKind::Error] {
                for same in [true, false] {
                    for pos in 0..3 {
                        for k3 in [MKind::Type, MKind::Method, MKind::Error] {
                            let mut members = vec![mk(k1, "Aa"), mk(k2, if same { "Aa" } else { "Bb" })];
                            members.insert(pos.min(members.len()), mk(k3, "Zz"));
                            let text = format!("interface a.b\n{}\n", members.join("\n"));
                            judge(ctx, &text, "duplicate-matrix", true);
                            // two different duplicated names at once
                            let text2 = format!("interface a.b\n{}\n{}\n{}\n", members.join("\n"), mk(k3, "Zz"), mk(k2, "Qq"));
                            judge(ctx, &text2, "duplicate-matrix-2", true);
                        }
                    }
                }
            }
        }
    }
    // 3b. a collision among several members of the first kind, declared in every order (what
    // finds an earlier definition must not depend on the order of declaration)
    {
        let mk = |k: MKind, name: &str| match k {
            MKind::Type => format!("type {} (a: int)", name),
            MKind::Method => format!("method {}() -> ()", name),
            MKind::Error => format!("error {} (a: int)", name),
        };
        let names = ["Aa", "Cc", "Mm", "Zz"];
        let mut perms: Vec<Vec<&str>> = Vec::new();
        for a in 0..4 {
            for b in 0..4 {
                for c in 0..4 {
                    for d in 0..4 {
                        if a != b && a != c && a != d && b != c && b != d && c != d {
                            perms.push(vec![names[a], names[b], names[c], names[d]]);
                        }
                    }
                }
            }
        }
        for k1 in [MKind::Type, MKind::Method, MKind::Error] {
            for k2 in [MKind::Type, MKind::Method, MKind::Error] {
                for perm in &perms {
                    for take in [3usize, 4] {
                        for collide in 0..take {
                            for pos in [0usize, take / 2, take] {
                                let mut members: Vec<String> = perm[..take].iter().map(|n| mk(k1, n)).collect();
                                members.insert(pos, mk(k2, perm[collide]));
                                let text = format!("interface a.b\n{}\n", members.join("\n"));
                                judge(ctx, &text, "duplicate-among-several", true);
                            }
                        }
                    }
                }
            }
        }
    }
    // 3c. several duplicated names at once, one spelled inside another or inside the wording
    // of a diagnostic (each must be named, however the messages are collected)
    {
        let mk = |k: MKind, name: &str| match k {
            MKind::Type => format!("type {} (a: int)", name),
            MKind::Method => format!("method {}() -> ()", name),
            MKind::Error => format!("error {} (a: int)", name),
        };
        let pairs = [("GetInfo", "Get"), ("Get", "GetInfo"), ("NotFound", "Found"), ("Ping", "I"), ("Ping", "In"), ("Ping", "Interface"), ("Interface", "I"), ("Aa", "A"), ("A", "Aa"), ("Multiple", "M"), ("Ping", "B")];
        let kinds = [MKind::Type, MKind::Method, MKind::Error];
        for (a, b) in pairs {
            for ka1 in kinds {
                for ka2 in kinds {
                    for kb1 in kinds {
                        for kb2 in kinds {
                            for order in 0..2 {
                                let members = if order == 0 { vec![mk(ka1, a), mk(ka2, a), mk(kb1, b), mk(kb2, b)] } else { vec![mk(ka1, a), mk(kb1, b), mk(ka2, a), mk(kb2, b)] };
                                for iface in ["a.b", "org.Ping.B"] {
                                    let text = format!("interface {}\n{}\n", iface, members.join("\n"));
                                    judge(ctx, &text, "duplicates-with-nested-spellings", true);
                                }
                            }
                        }
                    }
                }
            }
        }
    }
    // 4+5. generated valid texts and near misses
    let nvalid = ctx.tier.pick(5000usize, 1_000_000usize);
    let nmut = ctx.tier.pick(10usize, 10usize);
    let nw = workers();
    par(nw, |w| {
        let mut rng = Rng::lane(ctx.seed, 1100 + w as u64);
        let cfg = GenCfg::parser();
        let mut i = w;
        while i < nvalid {
            let idl = gen_idl(&mut rng, &cfg);
            let level = i % 3;
            let toks = Deco { rng: &mut rng, level }.render(&idl);
            let text = join(&toks);
            // self-check of the harness: the strict recogniser must accept what the generator
            // renders, with the generated structure
            match recognise(&text, Mode::Strict) {
                Ok(p) if diff(&by_kind(&p), &by_kind(&norm_comments(&idl))).is_none() => {}
                other => {
                    ctx.inconclusive(json!({"harness": "generator and strict recogniser disagree", "text": text, "recognised": format!("{:?}", other).chars().take(300).collect::<String>()}));
                    i += nw;
                    continue;
                }
            }
            judge(ctx, &text, &format!("generated-valid-level{}", level), false);
            for _ in 0..nmut {
                let (m, op) = mutate_tokens(&toks, &mut rng);
                judge(ctx, &m, &format!("near-miss-{}", op), true);
            }
            if i % 1500 == 0 || ctx.want_sample() {
                ctx.sample(json!({"valid_text_level": level, "text": text}));
            }
            i += nw;
        }
    });
    ctx.finish(ctx.tier.pick(50_000, 1_000_000))
}

pub fn replay(ctx: &Ctx, w: &Value) {
    let text = w.get("text").and_then(|v| v.as_str()).unwrap_or("");
    println!("text: {:?}\nreference: {:?}\nimplementation: {:?}", text, bracket(text), run_impl(text));
    judge(ctx, text, w.get("class").and_then(|v| v.as_str()).unwrap_or("replay"), true);
}
