//! C01 (ordering / exactly-once under pipelining) and the server half of C04 (oneway never
//! answered). Both judge the same kind of execution — a request sequence driven through
//! handle() in memory and through listen() on a socket — with separate oracles.
use crate::core::*;
use crate::drive::*;
use crate::model::*;
use crate::sock::*;
use crate::svc::*;
use serde_json::{json, Value};
use std::time::Duration;

/// Enumerate all sequences of length `len` over `syms`; index -> sequence.
fn nth_seq(syms: &[(Kind, Flags)], len: usize, mut idx: u64) -> Vec<Req> {
    let n = syms.len() as u64;
    let mut v = Vec::with_capacity(len);
    for i in 0..len {
        let (k, f) = syms[(idx % n) as usize];
        idx /= n;
        v.push(Req::new(k, f, &format!("q{}", i)));
    }
    v
}

fn symbols(kinds: &[Kind], with_oneway: bool) -> Vec<(Kind, Flags)> {
    let mut v = Vec::new();
    for &k in kinds {
        for &f in ALL_FLAGS {
            if f.oneway && !with_oneway {
                continue;
            }
            v.push((k, f));
        }
    }
    v
}

/// Drive `reqs` through handle() with `depth` requests per chunk.
pub fn run_mem(svc: &varlink::VarlinkService, reqs: &[Req], depth: usize) -> MemRun {
    let bytes: Vec<Vec<u8>> = reqs.chunks(depth.max(1)).map(seq_bytes).collect();
    let refs: Vec<&[u8]> = bytes.iter().map(|b| &b[..]).collect();
    run_chunks(svc, &refs, Caller { keep_reader: false, flush_upgraded: false }, None)
}

fn witness(reqs: &[Req], depth: usize, transport: &str, run_out: &[u8], closed: &Option<String>, msg: &str) -> Value {
    json!({
        "engine": "c01",
        "transport": transport,
        "depth": depth,
        "requests": reqs.iter().map(|r| r.to_value()).collect::<Vec<_>>(),
        "request_kinds": reqs.iter().map(|r| r.describe()).collect::<Vec<_>>(),
        "stream_hex": hex(&seq_bytes(reqs)),
        "reply_bytes": show(run_out),
        "closed": closed,
        "message": msg,
    })
}

fn descriptor(reqs: &[Req], depth: usize, transport: &str) -> u64 {
    let d: Vec<(Kind, Flags)> = reqs.iter().map(|r| (r.kind, r.flags)).collect();
    hash_of(&(d, depth, transport))
}

/// C01 judgment of one in-memory execution.
fn judge_c01(ctx: &Ctx, reqs: &[Req], depth: usize, run: &MemRun, transport: &str) {
    if let Some(p) = &run.panicked {
        ctx.violation("c01:panic", witness(reqs, depth, transport, &run.out, &run.closed, &format!("panic: {}", p)));
        return;
    }
    let closed = run.closed.is_some();
    match align(reqs, &run.out, closed, STD_REGISTERED) {
        Ok(rep) => {
            ctx.count("reply_frames_observed", rep.frames_total as u64);
            ctx.count("oneway_reply_frames_left_to_C04", rep.oneway_frames.len() as u64);
            if closed {
                ctx.count("connections_closed_by_service", 1);
            }
            let nontrivial = reqs.len() >= 2 && rep.frames_total >= 1;
            ctx.case(if nontrivial { Some(descriptor(reqs, depth, transport)) } else { None });
        }
        Err((sig, msg)) => {
            ctx.case(Some(descriptor(reqs, depth, transport)));
            ctx.violation(&sig, witness(reqs, depth, transport, &run.out, &run.closed, &msg));
        }
    }
}

/// C04 judgment: no frame answers a oneway request; output equals that of the sequence with
/// the oneway requests removed (prefix if the service closed the connection).
fn judge_c04(ctx: &Ctx, svc: &varlink::VarlinkService, reqs: &[Req], depth: usize, run: &MemRun, transport: &str) {
    let ow: Vec<usize> = (0..reqs.len()).filter(|&i| reqs[i].flags.oneway).collect();
    if ow.is_empty() {
        return;
    }
    let (frames, _) = split_frames(&run.out);
    ctx.count("reply_frames_observed", frames.len() as u64);
    ctx.count("oneway_requests_observed", ow.len() as u64);
    let mut bad = false;
    for &i in &ow {
        let r = &reqs[i];
        // the closing quote keeps token r1 from matching r11
        let marker = match r.kind {
            Kind::UnknownIface => format!("org.nope.t{}\"", r.token),
            Kind::NoDot => format!("nodot{}\"", r.token),
            Kind::SvcUnknownMethod | Kind::UnknownMethodGen | Kind::UnknownMethodHand => format!("Nope{}\"", r.token),
            _ => format!("\"{}\"", r.token),
        };
        for f in &frames {
            if String::from_utf8_lossy(f).contains(&marker) {
                bad = true;
                ctx.violation(
                    &format!("c04:reply-to-oneway:{:?}", r.kind),
                    witness(reqs, depth, transport, &run.out, &run.closed, &format!("frame {} answers oneway request {} ({})", String::from_utf8_lossy(f), i, r.describe())),
                );
                break;
            }
        }
    }
    // metamorphic: same sequence without the oneway requests
    let stripped: Vec<Req> = reqs.iter().filter(|r| !r.flags.oneway).cloned().collect();
    let base = run_mem(svc, &stripped, stripped.len().max(1));
    let (a, b) = (canon_frames(&run.out), canon_frames(&base.out));
    let same = if run.closed.is_some() { b.starts_with(&a) } else { a == b };
    if !same && !bad {
        let first_ow = &reqs[ow[0]];
        ctx.violation(
            &format!("c04:stream-misaligned:{:?}", first_ow.kind),
            witness(reqs, depth, transport, &run.out, &run.closed, &format!("reply stream differs from the one without the oneway requests: {}", show(&base.out))),
        );
    }
    // the statement's "stays aligned": position of the oneway request matters
    let followed = ow.iter().any(|&i| reqs[i + 1..].iter().any(|r| !r.flags.oneway));
    let d: Vec<(Kind, Flags)> = reqs.iter().map(|r| (r.kind, r.flags)).collect();
    ctx.case(if followed { Some(hash_of(&(d, transport))) } else { None });
}

/// C04: a oneway call to a method that upgrades the connection before it replies gets no reply
/// frame either; what follows the request goes to the upgraded handler and its output is all
/// the client sees.
fn oneway_upgrade_cases(ctx: &Ctx) {
    let svc = standard_service(SvcCfg { up: UpMode::Line, ..Default::default() });
    for with_flag in [true, false] {
        for npre in 0..3usize {
            for payload in ["", "line one\n", "a\nb\nc\n"] {
                let mut stream = Vec::new();
                let mut expect = Vec::new();
                for i in 0..npre {
                    let r = Req::new(Kind::Echo, Flags { more: false, oneway: false }, &format!("pre{}", i));
                    stream.extend(r.to_bytes());
                    expect.push(format!("\"pre{}\"", i));
                }
                let mut up = json!({"method": "org.verif.t.Upgrade", "parameters": {"token": "UPGRADE-TOKEN"}, "oneway": true});
                if with_flag {
                    up["upgrade"] = json!(true);
                }
                stream.extend(serde_json::to_vec(&up).unwrap());
                stream.push(0);
                stream.extend_from_slice(payload.as_bytes());
                let run = run_whole(&svc, &stream, None);
                ctx.case(Some(hash_of(&("oneway-upgrade", with_flag, npre, payload))));
                ctx.count("oneway_upgrade_streams", 1);
                let out = String::from_utf8_lossy(&run.out).to_string();
                let wit = |m: String| json!({"engine": "c04-oneway-upgrade", "stream": show(&stream), "reply_bytes": show(&run.out), "message": m});
                if out.contains("UPGRADE-TOKEN") {
                    ctx.violation("c04:reply-to-oneway:Upgrade", wit("the oneway call to the upgrading method drew a reply frame".into()));
                    continue;
                }
                // everything written after the prefix replies is the upgraded handler's output
                let after = match out.rfind('\0') {
                    Some(p) => &out[p + 1..],
                    None => &out[..],
                };
                let want: String = payload.split_inclusive('\n').map(|l| format!("ack:{}", l)).collect();
                if run.out.iter().filter(|b| **b == 0).count() != npre || after != want {
                    ctx.violation("c04:stream-misaligned:Upgrade", wit(format!("expected {} reply frame(s) followed by {:?}", npre, want)));
                }
            }
        }
    }
}

pub fn run_memory(ctx: &Ctx, which: &str) {
    if which == "C04" {
        oneway_upgrade_cases(ctx);
    }
    let tier = ctx.tier;
    let syms = symbols(CORE_KINDS, true);
    let maxlen = tier.pick(3, 4);
    let nw = workers();
    // exhaustive part
    for len in 1..=maxlen {
        let total = (syms.len() as u64).pow(len as u32);
        par(nw, |w| {
            let svc = standard_service(SvcCfg::default());
            let mut idx = w as u64;
            while idx < total {
                let reqs = nth_seq(&syms, len, idx);
                if which == "C04" && !reqs.iter().any(|r| r.flags.oneway) {
                    idx += nw as u64;
                    continue;
                }
                // every pipelining depth for short sequences; whole + 1 for the longest
                let depths: Vec<usize> = if len <= 3 { (1..=len).collect() } else { vec![len, 1, 2] };
                for &d in &depths {
                    let run = run_mem(&svc, &reqs, d);
                    if which == "C01" {
                        judge_c01(ctx, &reqs, d, &run, "memory");
                    } else if d == len {
                        judge_c04(ctx, &svc, &reqs, d, &run, "memory");
                    }
                }
                if idx % 9973 == 0 || ctx.want_sample() {
                    let run = run_mem(&svc, &reqs, len);
                    ctx.sample(json!({"requests": reqs.iter().map(|r| r.describe()).collect::<Vec<_>>(), "depth": len, "replies": show(&run.out), "closed": run.closed}));
                }
                idx += nw as u64;
            }
        });
        ctx.count(&format!("exhaustive_len{}_sequences", len), total);
    }
    // thorough: all sequences of length 5 over a reduced alphabet (one kind per behaviour class that
    // can interact across requests: succeed, stream, bad parameters + close, unknown interface,
    // no dot) with all four flag combinations
    if tier == Tier::Thorough {
        let syms5 = symbols(&[Kind::Echo, Kind::Stream2, Kind::GenAddBadType, Kind::UnknownIface, Kind::NoDot], true);
        let total = (syms5.len() as u64).pow(5);
        par(nw, |w| {
            let svc = standard_service(SvcCfg::default());
            let mut idx = w as u64;
            while idx < total {
                let reqs = nth_seq(&syms5, 5, idx);
                if which == "C01" || reqs.iter().any(|r| r.flags.oneway) {
                    for d in [5usize, 1, 3] {
                        let run = run_mem(&svc, &reqs, d);
                        if which == "C01" {
                            judge_c01(ctx, &reqs, d, &run, "memory");
                        } else if d == 5 {
                            judge_c04(ctx, &svc, &reqs, d, &run, "memory");
                        }
                    }
                }
                idx += nw as u64;
            }
        });
        ctx.count("exhaustive_len5_reduced_alphabet_sequences", total);
    }
    // random longer sequences over the full alphabet
    let nrand = tier.pick(20_000u64, 500_000u64);
    par(nw, |w| {
        let svc = standard_service(SvcCfg::default());
        let mut rng = Rng::lane(ctx.seed, w as u64 + 100);
        let per = nrand / nw as u64;
        for _ in 0..per {
            let len = rng.range(5, 40);
            let reqs = random_seq(&mut rng, ALL_KINDS, len, "r", if which == "C04" { 40 } else { 15 });
            let d = rng.range(1, len);
            let run = run_mem(&svc, &reqs, d);
            if which == "C01" {
                judge_c01(ctx, &reqs, d, &run, "memory");
                // the same requests written differently (member order, blanks and line ends
                // between tokens, \\u escapes): a request is its JSON value, not its spelling
                let canon = seq_bytes(&reqs);
                let other = respell_stream(&canon, &mut rng);
                let a = run_whole(&svc, &canon, None);
                let b = run_whole(&svc, &other, None);
                ctx.count("respelled_streams_compared", 1);
                if canon_frames(&a.out) != canon_frames(&b.out) || a.closed.is_some() != b.closed.is_some() {
                    ctx.violation(
                        "c01:respelled-requests-answered-differently",
                        json!({"engine": "c01-respell", "request_kinds": reqs.iter().map(|r| r.describe()).collect::<Vec<_>>(), "canonical_stream": show(&canon), "respelled_stream": show(&other), "respelled_hex": hex(&other),
                               "replies_canonical": show(&a.out), "replies_respelled": show(&b.out), "closed": [a.closed.clone(), b.closed.clone()], "message": "the same JSON values in another spelling drew different replies"}),
                    );
                }
            } else {
                let run = run_mem(&svc, &reqs, len);
                judge_c04(ctx, &svc, &reqs, len, &run, "memory");
            }
        }
    });
    ctx.count("random_long_sequences", nrand);
}

#[derive(Debug)]
pub struct SockRun {
    /// further sentinels sent after a silent period (each answered one proves the connection open)
    pub extra_sentinels: Vec<Req>,
    pub out: Vec<u8>,
    pub closed: bool,
    pub inconclusive: Option<String>,
}

/// Send `reqs` + a sentinel Echo with at most `depth` unanswered requests in flight; read until
/// the sentinel is answered (connection demonstrably still open) or EOF (closed by service).
pub fn run_socket(address: &str, reqs: &[Req], depth: usize, rng: &mut Rng, segment: bool, sentinel_token: &str) -> SockRun {
    let mut conn = match RawConn::connect(address) {
        Ok(c) => c,
        Err(e) => return SockRun { out: vec![], closed: false, inconclusive: Some(format!("connect: {}", e)), extra_sentinels: vec![] },
    };
    let mut all: Vec<Req> = reqs.to_vec();
    all.push(Req::new(Kind::Echo, Flags { more: false, oneway: false }, sentinel_token));
    let mut out = Vec::new();
    let mut outstanding = 0usize;
    let mut next = 0usize;
    let mut closed = false;
    let mut sentinel_marker = format!("\"{}\"", sentinel_token);
    let mut retries = 0;
    let mut extra_sentinels: Vec<Req> = Vec::new();
    loop {
        // fill the window
        let mut batch = Vec::new();
        while next < all.len() && outstanding < depth.max(1) {
            batch.extend(all[next].to_bytes());
            if !all[next].flags.oneway {
                outstanding += 1;
            }
            next += 1;
        }
        if !batch.is_empty() {
            let cuts: Vec<usize> = if segment && batch.len() > 2 {
                let k = rng.below(4);
                let mut c: Vec<usize> = (0..k).map(|_| rng.range(1, batch.len() - 1)).collect();
                c.sort();
                c.dedup();
                c
            } else {
                vec![]
            };
            let delay = if segment { rng.below(300) as u64 } else { 0 };
            if conn.write_segmented(&batch, &cuts, delay).is_err() {
                // peer closed: fall through to reading what is left
                closed = true;
            }
        }
        match conn.read_frame(Duration::from_secs(if retries == 0 { 4 } else { 2 })) {
            ReadEv::Frame(f) => {
                let is_final = serde_json::from_slice::<Value>(&f).map(|v| !is_continues(&v)).unwrap_or(true);
                let is_sentinel = String::from_utf8_lossy(&f).contains(&sentinel_marker);
                out.extend_from_slice(&f);
                out.push(0);
                if is_final {
                    outstanding = outstanding.saturating_sub(1);
                }
                if is_sentinel {
                    break;
                }
            }
            ReadEv::Eof => {
                closed = true;
                out.extend_from_slice(&conn.rbuf);
                break;
            }
            ReadEv::Timeout => {
                // Neither a reply nor EOF: send a further sentinel. If that one is answered the
                // connection is demonstrably open and everything before it was skipped.
                retries += 1;
                if retries > 3 {
                    return SockRun { out, closed, inconclusive: Some("no frame, no EOF, 3 further sentinels unanswered".into()), extra_sentinels };
                }
                let extra = Req::new(Kind::Echo, Flags { more: false, oneway: false }, &format!("{}R{}", sentinel_token, retries));
                extra_sentinels.push(extra.clone());
                sentinel_marker = format!("\"{}\"", extra.token);
                if conn.write_all(&extra.to_bytes()).is_err() {
                    closed = true;
                }
            }
            ReadEv::Error(e) => {
                return SockRun { out, closed, inconclusive: Some(format!("read error {}", e)), extra_sentinels };
            }
        }
    }
    SockRun { out, closed, inconclusive: None, extra_sentinels }
}

/// A client that sends `reqs[..k]` as one burst and then WAITS for every reply the burst is owed
/// before sending anything else (the window-filling driver never ends a burst on a oneway call
/// and always has a sentinel behind it).  Returns the run and how many final replies were still
/// missing when the wait gave up.
pub fn run_socket_pausing(address: &str, reqs: &[Req], k: usize, sentinel_token: &str, wait: Duration) -> (SockRun, usize) {
    let fail = |why: String| (SockRun { out: vec![], closed: false, inconclusive: Some(why), extra_sentinels: vec![] }, 0);
    let mut conn = match RawConn::connect(address) {
        Ok(c) => c,
        Err(e) => return fail(format!("connect: {}", e)),
    };
    let mut out = Vec::new();
    let mut closed = false;
    let owed = reqs[..k].iter().filter(|r| !r.flags.oneway).count();
    let mut finals = 0usize;
    let mut missing = 0usize;
    if conn.write_all(&seq_bytes(&reqs[..k])).is_err() {
        closed = true;
    }
    while finals < owed && !closed {
        match conn.read_frame(wait) {
            ReadEv::Frame(f) => {
                if serde_json::from_slice::<Value>(&f).map(|v| !is_continues(&v)).unwrap_or(true) {
                    finals += 1;
                }
                out.extend_from_slice(&f);
                out.push(0);
            }
            ReadEv::Eof => {
                closed = true;
                out.extend_from_slice(&conn.rbuf);
            }
            ReadEv::Timeout => {
                missing = owed - finals;
                break;
            }
            ReadEv::Error(e) => return fail(format!("read error {}", e)),
        }
    }
    if !closed {
        let mut rest: Vec<Req> = reqs[k..].to_vec();
        rest.push(Req::new(Kind::Echo, Flags { more: false, oneway: false }, sentinel_token));
        if conn.write_all(&seq_bytes(&rest)).is_err() {
            closed = true;
        }
        let marker = format!("\"{}\"", sentinel_token);
        loop {
            match conn.read_frame(Duration::from_secs(20)) {
                ReadEv::Frame(f) => {
                    let is_sentinel = String::from_utf8_lossy(&f).contains(&marker);
                    out.extend_from_slice(&f);
                    out.push(0);
                    if is_sentinel {
                        break;
                    }
                }
                ReadEv::Eof => {
                    closed = true;
                    out.extend_from_slice(&conn.rbuf);
                    break;
                }
                ReadEv::Timeout => return fail("no frame and no EOF within 20 s of the sentinel".into()),
                ReadEv::Error(e) => return fail(format!("read error {}", e)),
            }
        }
    }
    (SockRun { out, closed, inconclusive: None, extra_sentinels: vec![] }, missing)
}

/// Replies owed to a burst must arrive without any further input from the client.  A wait is
/// not a verdict by itself: only when the same burst is short of replies three times in a row
/// while the connection stays open (and the replies then do arrive once more bytes are sent or
/// never) is it reported; a single slow round is inconclusive.
fn pausing_case(ctx: &Ctx, address: &str, tname: &str, reqs: &[Req], k: usize, w: usize, n: usize) {
    let mut stalls = Vec::new();
    for attempt in 0..3 {
        let sentinel = format!("PSENT{}x{}a{}", w, n, attempt);
        let (sr, missing) = run_socket_pausing(address, reqs, k, &sentinel, Duration::from_secs(4));
        if let Some(why) = sr.inconclusive {
            ctx.inconclusive(json!({"why": why, "requests": reqs.iter().map(|r| r.describe()).collect::<Vec<_>>(), "pause_after": k, "transport": tname}));
            return;
        }
        let mut all = reqs.to_vec();
        all.push(Req::new(Kind::Echo, Flags { more: false, oneway: false }, &sentinel));
        let run = MemRun { out: sr.out, closed: if sr.closed { Some("EOF".into()) } else { None }, panicked: None, tail: vec![], upgraded: None, left_in_reader: 0, handle_calls: 0, out_per_call: vec![], upgrade_input_len: None };
        if attempt == 0 {
            ctx.count("socket_connections", 1);
            ctx.count("bursts_awaited_without_further_input", 1);
            if reqs[k - 1].flags.oneway {
                ctx.count("awaited_bursts_ending_in_oneway", 1);
            }
            let before = ctx.violations();
            judge_c01(ctx, &all, k, &run, tname);
            if ctx.violations() > before {
                return;
            }
        }
        if missing == 0 || run.closed.is_some() {
            if attempt > 0 {
                ctx.inconclusive(json!({"why": "a burst was short of replies after 4 s once but not when repeated", "pause_after": k, "transport": tname}));
            }
            return;
        }
        stalls.push(format!("attempt {}: {} final replies missing 4 s after the burst, connection open; full reply stream afterwards: {}", attempt, missing, truncate(&show(&run.out), 300)));
    }
    ctx.violation(
        "c01:socket:replies-withheld-until-further-input",
        json!({"engine": "c01-pause", "transport": tname, "pause_after": k, "requests": reqs.iter().map(|r| r.to_value()).collect::<Vec<_>>(), "request_kinds": reqs.iter().map(|r| r.describe()).collect::<Vec<_>>(), "message": stalls}),
    );
}

pub fn run_sockets(ctx: &Ctx, which: &str) {
    let tier = ctx.tier;
    let nconn = tier.pick(1500usize, 20_000usize);
    let syms = symbols(CORE_KINDS, true);
    for (ti, &tr) in [Transport::UnixPath, Transport::Tcp].iter().enumerate() {
        let mut server = match Server::start(standard_service(SvcCfg::default()), tr, ServerCfg::default()) {
            Ok(s) => s,
            Err(e) => {
                ctx.inconclusive(json!({"server_start": e}));
                continue;
            }
        };
        if let Err(e) = server.wait_ready() {
            ctx.inconclusive(json!({"server_ready": e, "address": server.address}));
            continue;
        }
        let address = server.address.clone();
        let tname = format!("{:?}", tr);
        let nw = 8;
        let per = nconn / 2 / nw;
        par(nw, |w| {
            let svc = standard_service(SvcCfg::default());
            let mut rng = Rng::lane(ctx.seed, (ti * 100 + w) as u64 + 1000);
            // systematic: all sequences of length <=2, every depth; split across workers
            let mut jobs: Vec<(Vec<Req>, usize)> = Vec::new();
            for len in 1..=2usize {
                let total = (syms.len() as u64).pow(len as u32);
                let mut idx = w as u64;
                while idx < total {
                    for d in 1..=len {
                        jobs.push((nth_seq(&syms, len, idx), d));
                    }
                    idx += nw as u64;
                }
            }
            // quick: a seeded sample of the systematic part; thorough: all of it
            let sys_take = if tier == Tier::Quick { per / 2 } else { jobs.len() };
            let mut taken = 0;
            while taken < sys_take && !jobs.is_empty() {
                let j = if tier == Tier::Quick { jobs.swap_remove(rng.below(jobs.len())) } else { jobs.pop().unwrap() };
                one_socket_case(ctx, which, &svc, &address, &tname, &j.0, j.1, &mut rng, w, taken);
                taken += 1;
            }
            for n in 0..per.saturating_sub(if tier == Tier::Quick { sys_take } else { 0 }) {
                if n % 20 == 7 {
                    // a peer that sends requests and is gone before their replies can be written:
                    // the failed writes are that connection's business only; whoever is served
                    // next by the same worker must see nothing of it
                    if let Ok(mut v) = RawConn::connect(&address) {
                        let reqs = random_seq(&mut rng, &[Kind::Echo, Kind::DescKnown, Kind::Stream2, Kind::GetInfo], 4, &format!("van{}n{}_", w, n), 0);
                        let _ = v.write_all(&seq_bytes(&reqs));
                        v.shutdown_both();
                        drop(v);
                        ctx.count("peers_that_vanished_before_their_replies", 1);
                    }
                }
                let len = rng.range(3, 24);
                let reqs = random_seq(&mut rng, ALL_KINDS, len, &format!("w{}n{}_", w, n), if which == "C04" { 40 } else { 15 });
                let d = rng.range(1, len);
                one_socket_case(ctx, which, &svc, &address, &tname, &reqs, d, &mut rng, w, 100000 + n);
            }
            if which == "C01" {
                for n in 0..per / 3 {
                    let len = rng.range(2, 8);
                    let reqs = random_seq(&mut rng, ALL_KINDS, len, &format!("p{}n{}_", w, n), 35);
                    let k = rng.range(1, len);
                    pausing_case(ctx, &address, &tname, &reqs, k, w, n);
                    if ctx.violations() >= 3 {
                        break;
                    }
                }
            }
        });
        if let Err(e) = server.stop() {
            ctx.violation("c01:listen-returned-error", json!({"transport": tname, "error": e}));
        }
    }
}

#[allow(clippy::too_many_arguments)]
fn one_socket_case(ctx: &Ctx, which: &str, svc: &varlink::VarlinkService, address: &str, tname: &str, reqs: &[Req], depth: usize, rng: &mut Rng, w: usize, n: usize) {
    let sentinel = format!("SENT{}x{}", w, n);
    let sr = run_socket(address, reqs, depth, rng, true, &sentinel);
    if let Some(why) = sr.inconclusive {
        ctx.inconclusive(json!({"why": why, "requests": reqs.iter().map(|r| r.describe()).collect::<Vec<_>>(), "depth": depth, "transport": tname}));
        return;
    }
    let mut all = reqs.to_vec();
    all.push(Req::new(Kind::Echo, Flags { more: false, oneway: false }, &sentinel));
    all.extend(sr.extra_sentinels.iter().cloned());
    if !sr.extra_sentinels.is_empty() {
        ctx.count("silent_periods_probed_with_extra_sentinel", 1);
    }
    let run = MemRun {
        out: sr.out,
        closed: if sr.closed { Some("EOF".into()) } else { None },
        panicked: None,
        tail: vec![],
        upgraded: None,
        left_in_reader: 0,
        handle_calls: 0,
        out_per_call: vec![],
        upgrade_input_len: None,
    };
    ctx.count("socket_connections", 1);
    if which == "C01" {
        judge_c01(ctx, &all, depth, &run, tname);
    } else {
        judge_c04(ctx, svc, &all, depth, &run, tname);
    }
}

pub fn replay(ctx: &Ctx, which: &str, w: &Value) {
    let svc = standard_service(SvcCfg::default());
    let stream = unhex(w.get("stream_hex").and_then(|v| v.as_str()).unwrap_or(""));
    let reqs_v = w.get("requests").and_then(|v| v.as_array()).cloned().unwrap_or_default();
    println!("replaying {} request(s) through handle() in memory, single chunk", reqs_v.len());
    let run = run_whole(&svc, &stream, None);
    println!("reply bytes: {}", show(&run.out));
    println!("closed: {:?} panicked: {:?}", run.closed, run.panicked);
    // Re-judge with a reconstruction of the request list from the witness descriptions.
    let kinds = w.get("request_kinds").and_then(|v| v.as_array()).cloned().unwrap_or_default();
    let mut reqs = Vec::new();
    for k in kinds {
        let s = k.as_str().unwrap_or("");
        let (head, token) = s.split_once('#').unwrap_or((s, ""));
        let mut parts = head.split('+');
        let kname = parts.next().unwrap_or("");
        let mut f = Flags { more: false, oneway: false };
        for p in parts {
            if p == "more" {
                f.more = true
            }
            if p == "oneway" {
                f.oneway = true
            }
        }
        if let Some(&kind) = ALL_KINDS.iter().find(|k| format!("{:?}", k) == kname) {
            reqs.push(Req::new(kind, f, token));
        }
    }
    if w.get("engine").and_then(|v| v.as_str()) == Some("c01-pause") {
        let mut server = match Server::start(standard_service(SvcCfg::default()), Transport::UnixPath, ServerCfg::default()) {
            Ok(s) => s,
            Err(e) => return ctx.inconclusive(json!({"server_start": e})),
        };
        if let Err(e) = server.wait_ready() {
            return ctx.inconclusive(json!({"server_ready": e}));
        }
        let k = w.get("pause_after").and_then(|v| v.as_u64()).unwrap_or(1) as usize;
        pausing_case(ctx, &server.address.clone(), "UnixPath", &reqs, k.clamp(1, reqs.len().max(1)), 0, 0);
        let _ = server.stop();
        return;
    }
    let depth = w.get("depth").and_then(|v| v.as_u64()).unwrap_or(reqs.len() as u64) as usize;
    let run = run_mem(&svc, &reqs, depth);
    if which == "C01" {
        judge_c01(ctx, &reqs, depth, &run, "memory");
    } else {
        judge_c04(ctx, &svc, &reqs, depth, &run, "memory");
    }
}

pub fn main(ctx: &Ctx, which: &str) -> i32 {
    if which == "C01" {
        ctx.set_rule("request sequences over the S1 alphabet (11 core kinds x 4 flag combinations exhaustively to the length bound at every pipelining depth; 20 kinds at random for lengths 5-40) through handle() in memory and through listen() on unix+TCP sockets with a sentinel request; distinct = (kind/flag sequence, depth, transport); non-trivial = >=2 requests and >=1 reply frame observed");
        ctx.assume("reply frames are attributed by unique token where the reply carries one and by position otherwise");
        ctx.assume("a connection close (handle() Err / socket EOF) at or before an unanswered request is accepted wherever it happens");
        ctx.assume("frames that answer a oneway request are left to C04 when they carry that request's token");
    } else {
        ctx.set_rule("request sequences containing >=1 oneway request (every core kind x position exhaustively to the length bound; random longer ones) through handle() and listen(); distinct = (kind/flag sequence, transport); non-trivial = a non-oneway request follows a oneway one");
        ctx.assume("a oneway request may still close the connection (failed validation); then the reply stream must be a prefix of the one without the oneway requests");
    }
    run_memory(ctx, which);
    run_sockets(ctx, which);
    if which == "C04" {
        crate::c04client::run(ctx);
    }
    ctx.finish(ctx.tier.pick(50_000, 1_000_000))
}
