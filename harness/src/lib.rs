pub mod core;
pub mod svc;
pub mod model;
pub mod drive;
pub mod sock;
pub mod c01;
pub mod fake;
pub mod c04client;
