//! Test interfaces and service construction (S1): a hand-written recording interface,
//! a generated interface (emitted by /repo's generator in build.rs), and configurable
//! "recorder" interfaces registered under arbitrary names (C03).
use serde_json::{json, Value};
use std::io::{BufRead, Write};
use std::sync::{Arc, Mutex};
use varlink::{Call, CallTrait, Interface, Reply, VarlinkService};

#[allow(dead_code, non_camel_case_types, non_snake_case, clippy::all)]
pub mod gen {
    include!(concat!(env!("OUT_DIR"), "/org.verif.gen.rs"));
}

pub const VENDOR: &str = "verif vendor";
pub const PRODUCT: &str = "verif product";
pub const VERSION: &str = "9.9";
pub const URL: &str = "http://verif.example/";

pub const T_NAME: &str = "org.verif.t";
pub const T_DESC: &str = r#"# hand-written test interface
interface org.verif.t

method Echo(token: string) -> (token: string)
method Fail(token: string) -> ()
method Stream(n: int, token: string) -> (i: int, token: string)
method StreamRaw(n: int, token: string) -> (i: int, token: string)
method Script(ops: []string, token: string) -> (token: string)
method Upgrade(token: string) -> (token: string)
method Block(token: string) -> (token: string)
method Panic(token: string) -> ()
error Failed (token: string)
error NeedMore (token: string)
"#;

#[derive(Debug, Clone, PartialEq)]
pub enum Ev {
    /// a call reached the interface registered under `name`
    Call { name: String, method: String, more: bool, oneway: bool, upgrade: bool, params: Option<Value> },
    /// script op i: (op, Ok?) ; errkind rendered
    Op { i: usize, op: String, ok: bool, err: String },
    /// the writer given to handle() received these bytes
    Write(Vec<u8>),
    /// call_upgraded was entered for `name`
    UpEnter(String),
    /// bytes consumed by call_upgraded
    UpBytes(Vec<u8>),
    /// bytes returned as `unread` by call_upgraded
    UpUnread(Vec<u8>),
}

pub type Log = Arc<Mutex<Vec<Ev>>>;
pub fn new_log() -> Log {
    Arc::new(Mutex::new(Vec::new()))
}

/// Writer wrapper that appends to a Vec and logs every write in the shared log.
pub struct LogWriter<'a> {
    pub out: &'a mut Vec<u8>,
    pub log: Option<Log>,
}
impl Write for LogWriter<'_> {
    fn write(&mut self, b: &[u8]) -> std::io::Result<usize> {
        self.out.extend_from_slice(b);
        if let Some(l) = &self.log {
            l.lock().unwrap().push(Ev::Write(b.to_vec()));
        }
        Ok(b.len())
    }
    fn flush(&mut self) -> std::io::Result<()> {
        Ok(())
    }
}

#[derive(Clone, Copy, PartialEq, Debug)]
pub enum UpMode {
    /// consume everything offered until EOF
    Drain,
    /// documented pattern: consume whole lines, return the incomplete rest as unread
    Line,
    /// consume one line per invocation (judged only for duplication / order)
    OneLine,
    /// every line is a script of reply operations (as for the Script method) run on the
    /// request-less call object the upgraded handler is given
    Script,
}

/// Gate used by Block(): a method body that parks until released (C13/C14/C15 workloads).
pub struct Gate {
    pub state: Mutex<GateState>,
    pub cv: std::sync::Condvar,
}
#[derive(Default)]
pub struct GateState {
    pub open: bool,
    pub inside: usize,
    pub max_inside: usize,
    pub entered_total: usize,
}
impl Gate {
    pub fn new() -> Arc<Gate> {
        Arc::new(Gate { state: Mutex::new(GateState::default()), cv: std::sync::Condvar::new() })
    }
    pub fn open(&self) {
        self.state.lock().unwrap().open = true;
        self.cv.notify_all();
    }
    pub fn close(&self) {
        self.state.lock().unwrap().open = false;
    }
}

pub struct TIface {
    pub log: Option<Log>,
    pub up: UpMode,
    pub gate: Option<Arc<Gate>>,
    /// per-reply delay in Stream (ms), used by C15 to keep a streaming reply in flight
    pub stream_delay_ms: u64,
}

fn perr(e: &varlink::Error) -> String {
    format!("{:?}", e.kind())
}

impl TIface {
    pub fn new(log: Option<Log>, up: UpMode) -> TIface {
        TIface { log, up, gate: None, stream_delay_ms: 0 }
    }
    fn rec(&self, e: Ev) {
        if let Some(l) = &self.log {
            l.lock().unwrap().push(e);
        }
    }
}

fn tok(p: &Option<Value>) -> Value {
    p.as_ref().and_then(|v| v.get("token")).cloned().unwrap_or(Value::Null)
}

impl Interface for TIface {
    fn get_description(&self) -> &'static str {
        T_DESC
    }
    fn get_name(&self) -> &'static str {
        T_NAME
    }
    fn call_upgraded(&self, call: &mut Call, r: &mut dyn BufRead) -> varlink::Result<Vec<u8>> {
        self.rec(Ev::UpEnter(T_NAME.into()));
        match self.up {
            UpMode::Drain => {
                let mut v = Vec::new();
                r.read_to_end(&mut v).map_err(varlink::map_context!())?;
                if !v.is_empty() {
                    self.rec(Ev::UpBytes(v));
                }
                Ok(Vec::new())
            }
            UpMode::Script => loop {
                let mut v = Vec::new();
                let n = r.read_until(b'\n', &mut v).map_err(varlink::map_context!())?;
                if n == 0 {
                    return Ok(Vec::new());
                }
                if v.last() != Some(&b'\n') {
                    return Ok(v);
                }
                let line = String::from_utf8_lossy(&v).trim().to_string();
                for (i, op) in line.split(' ').filter(|o| !o.is_empty()).enumerate() {
                    let res = match op {
                        "c1" => {
                            call.set_continues(true);
                            Ok(())
                        }
                        "c0" => {
                            call.set_continues(false);
                            Ok(())
                        }
                        "r" => call.reply_struct(Reply::parameters(Some(json!({"i": i, "token": "UP"})))),
                        "e" => call.reply_struct(Reply::error("org.verif.t.Failed", Some(json!({"i": i, "token": "UP"})))),
                        "inv" => call.reply_invalid_parameter(format!("p{}", i)),
                        "mnf" => call.reply_method_not_found(format!("m{}", i)),
                        "mni" => call.reply_method_not_implemented(format!("m{}", i)),
                        _ => Ok(()),
                    };
                    self.rec(Ev::Op { i, op: op.to_string(), ok: res.is_ok(), err: res.as_ref().err().map(perr).unwrap_or_default() });
                }
            },
            UpMode::Line | UpMode::OneLine => loop {
                let mut v = Vec::new();
                let n = r.read_until(b'\n', &mut v).map_err(varlink::map_context!())?;
                if n == 0 {
                    return Ok(Vec::new());
                }
                if v.last() != Some(&b'\n') {
                    self.rec(Ev::UpUnread(v.clone()));
                    return Ok(v);
                }
                call.writer.write_all(b"ack:").map_err(varlink::map_context!())?;
                call.writer.write_all(&v).map_err(varlink::map_context!())?;
                call.writer.flush().map_err(varlink::map_context!())?;
                self.rec(Ev::UpBytes(v));
                if self.up == UpMode::OneLine {
                    return Ok(Vec::new());
                }
            },
        }
    }
    fn call(&self, call: &mut Call) -> varlink::Result<()> {
        let req = call.request.unwrap();
        let method = req.method.to_string();
        let params = req.parameters.clone();
        self.rec(Ev::Call {
            name: T_NAME.into(),
            method: method.clone(),
            more: req.more == Some(true),
            oneway: req.oneway == Some(true),
            upgrade: req.upgrade == Some(true),
            params: params.clone(),
        });
        let token = tok(&params);
        match method.as_str() {
            "org.verif.t.Echo" => call.reply_struct(Reply::parameters(Some(json!({ "token": token })))),
            "org.verif.t.Fail" => call.reply_struct(Reply::error("org.verif.t.Failed", Some(json!({ "token": token })))),
            "org.verif.t.Stream" => {
                let n = params.as_ref().and_then(|v| v.get("n")).and_then(|v| v.as_u64()).unwrap_or(0);
                if !call.wants_more() {
                    return call.reply_struct(Reply::error("org.verif.t.NeedMore", Some(json!({ "token": token }))));
                }
                call.set_continues(true);
                for i in 0..n {
                    if self.stream_delay_ms > 0 {
                        std::thread::sleep(std::time::Duration::from_millis(self.stream_delay_ms));
                    }
                    call.reply_struct(Reply::parameters(Some(json!({"i": i, "token": token}))))?;
                }
                call.set_continues(false);
                call.reply_struct(Reply::parameters(Some(json!({"i": n, "token": token}))))
            }
            "org.verif.t.StreamRaw" => {
                // like Stream, but leaves the `more` question to the library
                let n = params.as_ref().and_then(|v| v.get("n")).and_then(|v| v.as_u64()).unwrap_or(0);
                call.set_continues(true);
                for i in 0..n {
                    call.reply_struct(Reply::parameters(Some(json!({"i": i, "token": token}))))?;
                }
                call.set_continues(false);
                call.reply_struct(Reply::parameters(Some(json!({"i": n, "token": token}))))
            }
            "org.verif.t.Script" => {
                let ops: Vec<String> = params
                    .as_ref()
                    .and_then(|v| v.get("ops"))
                    .and_then(|v| v.as_array())
                    .map(|a| a.iter().filter_map(|x| x.as_str().map(String::from)).collect())
                    .unwrap_or_default();
                for (i, op) in ops.iter().enumerate() {
                    let r = match op.as_str() {
                        "c1" => {
                            call.set_continues(true);
                            Ok(())
                        }
                        "c0" => {
                            call.set_continues(false);
                            Ok(())
                        }
                        "r" => call.reply_struct(Reply::parameters(Some(json!({"i": i, "token": token})))),
                        "e" => call.reply_struct(Reply::error("org.verif.t.Failed", Some(json!({"i": i, "token": token})))),
                        "inv" => call.reply_invalid_parameter(format!("p{}", i)),
                        "mnf" => call.reply_method_not_found(format!("m{}", i)),
                        "mni" => call.reply_method_not_implemented(format!("m{}", i)),
                        _ => Ok(()),
                    };
                    self.rec(Ev::Op { i, op: op.clone(), ok: r.is_ok(), err: r.as_ref().err().map(perr).unwrap_or_default() });
                }
                Ok(())
            }
            "org.verif.t.Upgrade" => {
                call.to_upgraded();
                call.reply_struct(Reply::parameters(Some(json!({ "token": token }))))
            }
            // a fault in interface code: the handler panics (C15/C13: the server must survive it
            // and its bookkeeping must not go wrong)
            "org.verif.t.Panic" => panic!("handler panic injected by the workload ({})", token),
            "org.verif.t.Block" => {
                if let Some(g) = &self.gate {
                    let mut st = g.state.lock().unwrap();
                    st.inside += 1;
                    st.entered_total += 1;
                    if st.inside > st.max_inside {
                        st.max_inside = st.inside;
                    }
                    g.cv.notify_all();
                    while !st.open {
                        st = g.cv.wait(st).unwrap();
                    }
                    st.inside -= 1;
                }
                call.reply_struct(Reply::parameters(Some(json!({ "token": token }))))
            }
            m => call.reply_method_not_found(m.to_string()),
        }
    }
}

/// Implementation of the generated server trait.
/// Generated from the hostile-format definition of build.rs (C03: description verbatim).
pub mod fmt {
    include!(concat!(env!("OUT_DIR"), "/org.verif.fmt.rs"));
}
pub const FMT_TEXT: &str = include_str!(concat!(env!("OUT_DIR"), "/org.verif.fmt.varlink"));
pub struct FmtImpl;
impl fmt::VarlinkInterface for FmtImpl {
    fn get(&self, call: &mut dyn fmt::Call_Get, t: fmt::T) -> varlink::Result<()> {
        call.reply(t)
    }
}

pub struct GenImpl;
impl gen::VarlinkInterface for GenImpl {
    fn add(&self, call: &mut dyn gen::Call_Add, a: i64, b: i64, token: String) -> varlink::Result<()> {
        match a.checked_add(b) {
            Some(s) => call.reply(s, token),
            None => call.reply_overflow(token),
        }
    }
    fn nop(&self, call: &mut dyn gen::Call_Nop) -> varlink::Result<()> {
        call.reply()
    }
}

/// A recorder registered under an arbitrary name (C03): has one method `Known`, everything
/// else is MethodNotFound — the hand-written counterpart of the generated fallback.
pub struct Recorder {
    pub name: &'static str,
    pub desc: &'static str,
    pub log: Log,
}
impl Interface for Recorder {
    fn get_description(&self) -> &'static str {
        self.desc
    }
    fn get_name(&self) -> &'static str {
        self.name
    }
    fn call_upgraded(&self, _c: &mut Call, _r: &mut dyn BufRead) -> varlink::Result<Vec<u8>> {
        self.log.lock().unwrap().push(Ev::UpEnter(self.name.into()));
        Ok(Vec::new())
    }
    fn call(&self, call: &mut Call) -> varlink::Result<()> {
        let req = call.request.unwrap();
        self.log.lock().unwrap().push(Ev::Call {
            name: self.name.into(),
            method: req.method.to_string(),
            more: req.more == Some(true),
            oneway: req.oneway == Some(true),
            upgrade: req.upgrade == Some(true),
            params: req.parameters.clone(),
        });
        let m = req.method.to_string();
        let known = format!("{}.Known", self.name);
        if m == known {
            call.reply_struct(Reply::parameters(Some(json!({ "by": self.name }))))
        } else {
            call.reply_method_not_found(m)
        }
    }
}

/// org.verif.env: the service's own view of its activation environment (C16).
pub struct EnvIface;
impl Interface for EnvIface {
    fn get_description(&self) -> &'static str {
        "interface org.verif.env\nmethod Report() -> (pid: int, env: [string]string, fd3_listening: bool, fd3_path: string)\n"
    }
    fn get_name(&self) -> &'static str {
        "org.verif.env"
    }
    fn call_upgraded(&self, _c: &mut Call, _r: &mut dyn BufRead) -> varlink::Result<Vec<u8>> {
        Ok(Vec::new())
    }
    fn call(&self, call: &mut Call) -> varlink::Result<()> {
        let mut env = serde_json::Map::new();
        for k in ["LISTEN_FDS", "LISTEN_FDNAMES", "LISTEN_PID", "VARLINK_ADDRESS"] {
            if let Ok(v) = std::env::var(k) {
                env.insert(k.into(), json!(v));
            }
        }
        // is fd 3 a listening socket?
        let mut val: libc::c_int = 0;
        let mut len = std::mem::size_of::<libc::c_int>() as libc::socklen_t;
        let rc = unsafe { libc::getsockopt(3, libc::SOL_SOCKET, libc::SO_ACCEPTCONN, &mut val as *mut _ as *mut libc::c_void, &mut len) };
        let path = std::fs::read_link("/proc/self/fd/3").map(|p| p.display().to_string()).unwrap_or_default();
        call.reply_struct(Reply::parameters(Some(json!({"pid": std::process::id(), "env": env, "fd3_listening": rc == 0 && val != 0, "fd3_path": path}))))
    }
}

pub struct SvcCfg {
    pub log: Option<Log>,
    pub up: UpMode,
    pub gate: Option<Arc<Gate>>,
    pub stream_delay_ms: u64,
}
impl Default for SvcCfg {
    fn default() -> Self {
        SvcCfg { log: None, up: UpMode::Drain, gate: None, stream_delay_ms: 0 }
    }
}

/// The standard service of the request alphabet: org.verif.t + org.verif.gen.
pub fn standard_service(cfg: SvcCfg) -> VarlinkService {
    let mut t = TIface::new(cfg.log, cfg.up);
    t.gate = cfg.gate;
    t.stream_delay_ms = cfg.stream_delay_ms;
    VarlinkService::new(VENDOR, PRODUCT, VERSION, URL, vec![Box::new(t), Box::new(gen::new(Box::new(GenImpl)))])
}

/// The standard service plus org.verif.env (only for the process-level C16/C18 services, so
/// that GetInfo of the in-process checks is unchanged).
pub fn process_service() -> VarlinkService {
    let t = TIface::new(None, UpMode::Line);
    VarlinkService::new(VENDOR, PRODUCT, VERSION, URL, vec![Box::new(t), Box::new(gen::new(Box::new(GenImpl))), Box::new(EnvIface)])
}
