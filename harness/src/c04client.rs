//! Client half of C04: oneway() returns after sending and never consumes a reply.
use crate::core::*;
use crate::fake::*;
use crate::sock::*;
use crate::svc::*;
use serde_json::{json, Value};
use std::sync::{Arc, RwLock};
use varlink::{Connection, MethodCall};

type MC = MethodCall<Value, Value, varlink::Error>;

#[derive(Clone, Copy, Debug, PartialEq, Eq, Hash)]
enum Op {
    Call,
    Oneway,
    More,
    OnewayFail,
    OnewayUnknown,
}
const OPS: &[Op] = &[Op::Call, Op::Oneway, Op::More, Op::OnewayFail, Op::OnewayUnknown];

/// Runs one op sequence on `conn`; returns Err(message) on a client-visible misalignment.
fn run_ops(conn: &Arc<RwLock<Connection>>, ops: &[Op], tag: &str) -> Result<u64, String> {
    let mut frames = 0u64;
    for (i, op) in ops.iter().enumerate() {
        let token = format!("{}_{}", tag, i);
        match op {
            Op::Call => {
                let r = MC::new(conn.clone(), "org.verif.t.Echo", json!({ "token": token })).call();
                match r {
                    Ok(v) if v.get("token").and_then(|t| t.as_str()) == Some(&token) => frames += 1,
                    Ok(v) => return Err(format!("op {} call({}) returned a reply that is not its own: {}", i, token, v)),
                    Err(e) => return Err(format!("op {} call({}) failed: {:?}", i, token, e.kind())),
                }
            }
            Op::Oneway | Op::OnewayFail | Op::OnewayUnknown => {
                let m = match op {
                    Op::Oneway => "org.verif.t.Echo",
                    Op::OnewayFail => "org.verif.t.Fail",
                    _ => "org.nope.zzz.Method",
                };
                if let Err(e) = MC::new(conn.clone(), m, json!({ "token": token })).oneway() {
                    return Err(format!("op {} oneway({}) failed: {:?}", i, token, e.kind()));
                }
                // oneway must leave the connection free: both slots back
                let c = conn.read().unwrap();
                if c.reader.is_none() || c.writer.is_none() {
                    return Err(format!("op {} oneway({}) left the connection busy", i, token));
                }
            }
            Op::More => {
                let mut mc = MC::new(conn.clone(), "org.verif.t.Stream", json!({"n": 2, "token": token}));
                let it = match mc.more() {
                    Ok(it) => it,
                    Err(e) => return Err(format!("op {} more({}) failed: {:?}", i, token, e.kind())),
                };
                let mut k = 0;
                for item in it {
                    match item {
                        Ok(v) if v.get("token").and_then(|t| t.as_str()) == Some(&token) && v.get("i").and_then(|x| x.as_u64()) == Some(k) => {
                            k += 1;
                            frames += 1;
                        }
                        Ok(v) => return Err(format!("op {} more({}) item {} is not its own: {}", i, token, k, v)),
                        Err(e) => return Err(format!("op {} more({}) item {} failed: {:?}", i, token, k, e.kind())),
                    }
                }
                if k != 3 {
                    return Err(format!("op {} more({}) yielded {} items, expected 3", i, token, k));
                }
            }
        }
    }
    Ok(frames)
}

fn nth_ops(len: usize, mut idx: usize) -> Vec<Op> {
    (0..len)
        .map(|_| {
            let o = OPS[idx % OPS.len()];
            idx /= OPS.len();
            o
        })
        .collect()
}

/// fake-server script: never answers oneway; Echo / Stream as the standard service would.
fn fake_script(v: &Value) -> Vec<Value> {
    if v.get("oneway") == Some(&Value::Bool(true)) {
        return vec![];
    }
    let token = v.get("parameters").and_then(|p| p.get("token")).cloned().unwrap_or(Value::Null);
    match v.get("method").and_then(|m| m.as_str()) {
        Some("org.verif.t.Stream") => vec![
            json!({"continues": true, "parameters": {"i": 0, "token": token}}),
            json!({"continues": true, "parameters": {"i": 1, "token": token}}),
            json!({"parameters": {"i": 2, "token": token}}),
        ],
        _ => vec![json!({"parameters": {"token": token}})],
    }
}

pub fn run(ctx: &Ctx) {
    let maxlen = ctx.tier.pick(5, 7);
    // (a) real client against a fake server that never answers oneway
    let mut n = 0u64;
    for len in 1..=maxlen {
        let total = OPS.len().pow(len as u32);
        let step = if ctx.tier == Tier::Quick && len >= 5 { 3 } else { 1 };
        let mut idx = (ctx.seed as usize) % step;
        while idx < total {
            let ops = nth_ops(len, idx);
            idx += step;
            if !ops.iter().any(|o| matches!(o, Op::Oneway | Op::OnewayFail | Op::OnewayUnknown)) {
                continue;
            }
            let (conn, srv_end) = pair_connection();
            let mut fs = spawn_fake(srv_end, fake_script, 0);
            let r = run_ops(&conn, &ops, &format!("f{}", n));
            drop(conn);
            fs.join();
            let reqs = fs.requests();
            n += 1;
            let followed = ops.iter().enumerate().any(|(i, o)| !matches!(o, Op::Call | Op::More) && ops[i + 1..].iter().any(|p| matches!(p, Op::Call | Op::More)));
            ctx.case(if followed { Some(hash_of(&("fake", &ops))) } else { None });
            ctx.count("client_ops_against_fake_server", ops.len() as u64);
            if let Err(m) = r {
                ctx.violation("c04:client-oneway-fake-server", json!({"engine": "c04client", "server": "fake", "ops": format!("{:?}", ops), "message": m}));
            } else if reqs.len() != ops.len() {
                ctx.violation("c04:client-requests-lost", json!({"engine": "c04client", "server": "fake", "ops": format!("{:?}", ops), "message": format!("fake server saw {} requests for {} ops", reqs.len(), ops.len())}));
            } else {
                for (i, (o, q)) in ops.iter().zip(reqs.iter()).enumerate() {
                    let is_ow = !matches!(o, Op::Call | Op::More);
                    if (q.get("oneway") == Some(&Value::Bool(true))) != is_ow {
                        ctx.violation("c04:client-oneway-flag", json!({"engine": "c04client", "ops": format!("{:?}", ops), "message": format!("request {} on the wire: {}", i, q)}));
                    }
                }
            }
            if n % 500 == 1 || ctx.want_sample() {
                ctx.sample(json!({"client_ops": format!("{:?}", ops), "server": "fake", "requests_seen_by_server": reqs.len()}));
            }
        }
    }
    // (b) real client against the real server through listen()
    let mut server = match Server::start(standard_service(SvcCfg::default()), Transport::UnixPath, ServerCfg::default()) {
        Ok(s) => s,
        Err(e) => {
            ctx.inconclusive(json!({ "server_start": e }));
            return;
        }
    };
    if server.wait_ready().is_err() {
        ctx.inconclusive(json!({"server_ready": "no"}));
        return;
    }
    let maxlen = ctx.tier.pick(4, 6);
    let nw = 8;
    let address = server.address.clone();
    par(nw, |w| {
        let mut n = 0;
        for len in 1..=maxlen {
            let total = OPS.len().pow(len as u32);
            let mut idx = w;
            while idx < total {
                let ops = nth_ops(len, idx);
                idx += nw;
                if !ops.iter().any(|o| !matches!(o, Op::Call | Op::More)) {
                    continue;
                }
                let conn = match Connection::with_address(&address) {
                    Ok(c) => c,
                    Err(e) => {
                        ctx.inconclusive(json!({"connect": format!("{:?}", e.kind())}));
                        continue;
                    }
                };
                n += 1;
                let r = run_ops(&conn, &ops, &format!("r{}x{}", w, n));
                let followed = ops.iter().enumerate().any(|(i, o)| !matches!(o, Op::Call | Op::More) && ops[i + 1..].iter().any(|p| matches!(p, Op::Call | Op::More)));
                ctx.case(if followed { Some(hash_of(&("real", &ops))) } else { None });
                ctx.count("client_ops_against_real_server", ops.len() as u64);
                if let Err(m) = r {
                    let first_ow = ops.iter().find(|o| !matches!(o, Op::Call | Op::More)).unwrap();
                    ctx.violation(&format!("c04:client-misaligned-real-server:{:?}", first_ow), json!({"engine": "c04client", "server": "real", "ops": format!("{:?}", ops), "message": m}));
                }
            }
        }
    });
    let _ = server.stop();
}
