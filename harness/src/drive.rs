//! S3a in-memory driver: calls ConnectionHandler::handle the way the reference callers do
//! (varlink/src/test.rs, examples/ping multiplex loop): keep the returned tail, append the
//! next chunk, pass the upgraded-interface name back in.
use crate::svc::{Log, LogWriter};
use std::panic::{catch_unwind, AssertUnwindSafe};
use varlink::{ConnectionHandler, VarlinkService};

#[derive(Debug, Clone, PartialEq)]
pub struct MemRun {
    pub out: Vec<u8>,
    /// Some(err debug string) if a handle() call returned Err (the connection is closed)
    pub closed: Option<String>,
    pub panicked: Option<String>,
    /// tail after the last handle() call (unprocessed bytes kept by the caller)
    pub tail: Vec<u8>,
    pub upgraded: Option<String>,
    /// bytes that were still in the caller's reader when handle() returned (reference callers
    /// drop these; the `keep_reader` caller re-feeds them)
    pub left_in_reader: usize,
    pub handle_calls: usize,
    /// reply bytes produced by each handle() call
    pub out_per_call: Vec<usize>,
    /// size of the input of the handle() call during which the connection became upgraded
    pub upgrade_input_len: Option<usize>,
}

#[derive(Clone, Copy, Debug, PartialEq)]
pub struct Caller {
    /// re-feed whatever handle() left unread in the reader it was given (a caller that owns a
    /// persistent reader); false = the reference callers, which only use the returned tail
    pub keep_reader: bool,
    /// after the last chunk, hand bytes still held for an upgraded connection to the handler
    pub flush_upgraded: bool,
}

pub fn run_chunks(svc: &VarlinkService, chunks: &[&[u8]], caller: Caller, log: Option<Log>) -> MemRun {
    let mut run = MemRun {
        out: Vec::new(),
        closed: None,
        panicked: None,
        tail: Vec::new(),
        upgraded: None,
        left_in_reader: 0,
        handle_calls: 0,
        out_per_call: Vec::new(),
        upgrade_input_len: None,
    };
    let mut pending: Vec<u8> = Vec::new();
    let mut iface: Option<String> = None;
    for c in chunks {
        pending.extend_from_slice(c);
        let before = run.out.len();
        let res = {
            let mut rd: &[u8] = &pending[..];
            let mut w = LogWriter { out: &mut run.out, log: log.clone() };
            let r = catch_unwind(AssertUnwindSafe(|| svc.handle(&mut rd, &mut w, iface.clone())));
            (r, rd.len())
        };
        run.handle_calls += 1;
        run.out_per_call.push(run.out.len() - before);
        match res {
            (Err(p), _) => {
                let msg = p.downcast_ref::<String>().cloned().or_else(|| p.downcast_ref::<&str>().map(|s| s.to_string())).unwrap_or_else(|| "panic".into());
                run.panicked = Some(msg);
                break;
            }
            (Ok(Err(e)), _) => {
                run.closed = Some(format!("{:?}", e.kind()));
                pending.clear();
                break;
            }
            (Ok(Ok((tail, i))), left) => {
                if iface.is_none() && i.is_some() {
                    run.upgrade_input_len = Some(pending.len());
                }
                iface = i;
                let rest: Vec<u8> = pending[pending.len() - left..].to_vec();
                run.left_in_reader += left;
                pending = tail;
                if caller.keep_reader {
                    pending.extend(rest);
                }
            }
        }
    }
    // An upgraded connection whose caller still holds returned bytes hands them to the
    // upgraded handler first (examples/ping: `buffer.chain(br)`), so flush them once.
    if caller.flush_upgraded && iface.is_some() && !pending.is_empty() && run.closed.is_none() && run.panicked.is_none() {
        let before = run.out.len();
        let res = {
            let mut rd: &[u8] = &pending[..];
            let mut w = LogWriter { out: &mut run.out, log: log.clone() };
            let r = catch_unwind(AssertUnwindSafe(|| svc.handle(&mut rd, &mut w, iface.clone())));
            (r, rd.len())
        };
        run.handle_calls += 1;
        run.out_per_call.push(run.out.len() - before);
        match res {
            (Err(_), _) => run.panicked = Some("panic in flush".into()),
            (Ok(Err(e)), _) => {
                run.closed = Some(format!("{:?}", e.kind()));
                pending.clear();
            }
            (Ok(Ok((tail, i))), left) => {
                iface = i;
                let rest: Vec<u8> = pending[pending.len() - left..].to_vec();
                pending = tail;
                if caller.keep_reader {
                    pending.extend(rest);
                }
            }
        }
    }
    run.tail = pending;
    run.upgraded = iface;
    run
}

pub fn run_whole(svc: &VarlinkService, stream: &[u8], log: Option<Log>) -> MemRun {
    run_chunks(svc, &[stream], Caller { keep_reader: true, flush_upgraded: true }, log)
}

/// Cut `s` at the given sorted positions.
pub fn cut<'a>(s: &'a [u8], cuts: &[usize]) -> Vec<&'a [u8]> {
    let mut v = Vec::new();
    let mut p = 0;
    for &c in cuts {
        if c > p && c < s.len() {
            v.push(&s[p..c]);
            p = c;
        }
    }
    v.push(&s[p..]);
    v
}
