//! S3b socket driver: varlink::listen running in a harness thread + a raw client.
use std::io::{Read, Write};
use std::net::{Shutdown, TcpStream};
use std::os::unix::net::UnixStream;
use std::path::PathBuf;
use std::sync::atomic::{AtomicBool, AtomicUsize, Ordering};
use std::sync::Arc;
use std::thread::JoinHandle;
use std::time::{Duration, Instant};
use varlink::{ListenConfig, VarlinkService};

static RUN_N: AtomicUsize = AtomicUsize::new(0);

pub fn run_dir() -> PathBuf {
    let d = crate::core::verif_dir().join("target").join("run").join(format!("{}-{}", std::process::id(), RUN_N.fetch_add(1, Ordering::SeqCst)));
    std::fs::create_dir_all(&d).expect("create run dir");
    d
}

#[derive(Clone, Copy, Debug, PartialEq, Eq, Hash)]
pub enum Transport {
    UnixPath,
    UnixPathMode,
    UnixAbstract,
    Tcp,
}
pub const TRANSPORTS: &[Transport] = &[Transport::UnixPath, Transport::UnixPathMode, Transport::UnixAbstract, Transport::Tcp];

pub struct Server {
    pub address: String,
    pub stop: Arc<AtomicBool>,
    pub handle: Option<JoinHandle<Result<(), String>>>,
    pub dir: Option<PathBuf>,
    pub returned_at: Arc<std::sync::Mutex<Option<Instant>>>,
    /// pthread id of the thread that runs listen() (0 until it has started): lets a history send
    /// that thread a signal while it waits for connections
    pub tid: Arc<std::sync::atomic::AtomicU64>,
}

pub struct ServerCfg {
    pub initial: usize,
    pub max: usize,
    pub idle_timeout: u64,
    pub with_stop_flag: bool,
}
impl Default for ServerCfg {
    fn default() -> Self {
        ServerCfg { initial: 1, max: 100, idle_timeout: 0, with_stop_flag: true }
    }
}

fn free_tcp_port(salt: usize) -> u16 {
    // bind to port 0 to learn a free port, then release it (racy but retried by callers)
    for _ in 0..50 {
        if let Ok(l) = std::net::TcpListener::bind("127.0.0.1:0") {
            if let Ok(a) = l.local_addr() {
                return a.port();
            }
        }
    }
    20000 + (salt % 30000) as u16
}

impl Server {
    /// Starts varlink::listen in a thread and waits until the address accepts connections.
    pub fn start(svc: VarlinkService, tr: Transport, cfg: ServerCfg) -> Result<Server, String> {
        let n = RUN_N.load(Ordering::SeqCst);
        let (address, dir) = match tr {
            Transport::UnixPath => {
                let d = run_dir();
                (format!("unix:{}/s", d.display()), Some(d))
            }
            Transport::UnixPathMode => {
                let d = run_dir();
                (format!("unix:{}/s;mode=0600", d.display()), Some(d))
            }
            Transport::UnixAbstract => (format!("unix:@verif-{}-{}", std::process::id(), RUN_N.fetch_add(1, Ordering::SeqCst)), None),
            Transport::Tcp => (format!("tcp:127.0.0.1:{}", free_tcp_port(n)), None),
        };
        Server::start_at(svc, &address, dir, cfg)
    }

    pub fn start_at(svc: VarlinkService, address: &str, dir: Option<PathBuf>, cfg: ServerCfg) -> Result<Server, String> {
        let stop = Arc::new(AtomicBool::new(false));
        let lc = ListenConfig {
            initial_worker_threads: cfg.initial,
            max_worker_threads: cfg.max,
            idle_timeout: cfg.idle_timeout,
            stop_listening: if cfg.with_stop_flag { Some(stop.clone()) } else { None },
        };
        let addr = address.to_string();
        let returned_at = Arc::new(std::sync::Mutex::new(None));
        let ra = returned_at.clone();
        let tid = Arc::new(std::sync::atomic::AtomicU64::new(0));
        let tid2 = tid.clone();
        let handle = std::thread::Builder::new()
            .name("listen".into())
            .spawn(move || {
                tid2.store(unsafe { libc::pthread_self() } as u64, Ordering::SeqCst);
                let r = varlink::listen(svc, &addr, &lc).map_err(|e| format!("{:?}", e.kind()));
                *ra.lock().unwrap() = Some(Instant::now());
                r
            })
            .map_err(|e| e.to_string())?;
        let s = Server { address: address.to_string(), stop, handle: Some(handle), dir, returned_at, tid };
        Ok(s)
    }

    /// Wait until a connection to the address succeeds (the probe connection is closed at once).
    pub fn wait_ready(&self) -> Result<(), String> {
        let t0 = Instant::now();
        loop {
            if let Ok(c) = RawConn::connect(&self.address) {
                drop(c);
                return Ok(());
            }
            if self.handle.as_ref().map(|h| h.is_finished()).unwrap_or(true) {
                return Err("listen returned before becoming ready".into());
            }
            if t0.elapsed() > Duration::from_secs(10) {
                return Err("server not ready after 10 s".into());
            }
            std::thread::sleep(Duration::from_millis(2));
        }
    }

    pub fn stop(&mut self) -> Result<(), String> {
        self.stop.store(true, Ordering::SeqCst);
        let r = match self.handle.take() {
            Some(h) => {
                // never wait for a listen() that cannot return (a deadlocked acceptor): the
                // thread is left behind and the caller is told
                let t0 = Instant::now();
                while !h.is_finished() && t0.elapsed() < Duration::from_secs(30) {
                    std::thread::sleep(Duration::from_millis(5));
                }
                if h.is_finished() {
                    h.join().map_err(|_| "listen thread panicked".to_string())?
                } else {
                    Err("listen() did not return within 30 s after the stop flag was set".to_string())
                }
            }
            None => Ok(()),
        };
        if let Some(d) = self.dir.take() {
            let _ = std::fs::remove_dir_all(d);
        }
        r
    }
}

impl Drop for Server {
    fn drop(&mut self) {
        self.stop.store(true, Ordering::SeqCst);
        if let Some(d) = self.dir.take() {
            let _ = std::fs::remove_dir_all(d);
        }
    }
}

pub enum Sock {
    Unix(UnixStream),
    Tcp(TcpStream),
}

pub struct RawConn {
    pub s: Sock,
    pub rbuf: Vec<u8>,
    pub eof: bool,
}

#[derive(Debug, PartialEq)]
pub enum ReadEv {
    Frame(Vec<u8>),
    Eof,
    Timeout,
    Error(String),
}

impl RawConn {
    pub fn connect(address: &str) -> std::io::Result<RawConn> {
        let s = if let Some(a) = address.strip_prefix("tcp:") {
            let t = TcpStream::connect(a)?;
            let _ = t.set_nodelay(true);
            Sock::Tcp(t)
        } else if let Some(a) = address.strip_prefix("unix:@") {
            use std::os::linux::net::SocketAddrExt;
            let a = a.split(';').next().unwrap();
            let sa = std::os::unix::net::SocketAddr::from_abstract_name(a)?;
            Sock::Unix(UnixStream::connect_addr(&sa)?)
        } else if let Some(a) = address.strip_prefix("unix:") {
            let a = a.split(';').next().unwrap();
            Sock::Unix(UnixStream::connect(a)?)
        } else {
            return Err(std::io::Error::new(std::io::ErrorKind::InvalidInput, "bad address"));
        };
        let mut c = RawConn { s, rbuf: Vec::new(), eof: false };
        // no write of the monitors may block for ever: a peer that stops reading (a spinning or
        // deadlocked server) makes the write fail after 20 s, which every caller treats like a
        // connection that went away
        c.set_write_timeout(Duration::from_secs(20));
        Ok(c)
    }
    pub fn from_unix(u: UnixStream) -> RawConn {
        let mut c = RawConn { s: Sock::Unix(u), rbuf: Vec::new(), eof: false };
        c.set_write_timeout(Duration::from_secs(20));
        c
    }
    pub fn write_all(&mut self, b: &[u8]) -> std::io::Result<()> {
        match &mut self.s {
            Sock::Unix(u) => u.write_all(b),
            Sock::Tcp(t) => t.write_all(b),
        }
    }
    /// Write `b` cut at `cuts` with `delay_us` between segments.
    pub fn write_segmented(&mut self, b: &[u8], cuts: &[usize], delay_us: u64) -> std::io::Result<()> {
        for seg in crate::drive::cut(b, cuts) {
            self.write_all(seg)?;
            if delay_us > 0 {
                std::thread::sleep(Duration::from_micros(delay_us));
            }
        }
        Ok(())
    }
    pub fn set_write_timeout(&mut self, d: Duration) {
        let d = Some(d.max(Duration::from_millis(1)));
        let _ = match &mut self.s {
            Sock::Unix(u) => u.set_write_timeout(d),
            Sock::Tcp(t) => t.set_write_timeout(d),
        };
    }
    pub fn shutdown_write(&mut self) {
        let _ = match &mut self.s {
            Sock::Unix(u) => u.shutdown(Shutdown::Write),
            Sock::Tcp(t) => t.shutdown(Shutdown::Write),
        };
    }
    pub fn shutdown_both(&mut self) {
        let _ = match &mut self.s {
            Sock::Unix(u) => u.shutdown(Shutdown::Both),
            Sock::Tcp(t) => t.shutdown(Shutdown::Both),
        };
    }
    fn set_timeout(&mut self, d: Duration) {
        let d = Some(d.max(Duration::from_millis(1)));
        let _ = match &mut self.s {
            Sock::Unix(u) => u.set_read_timeout(d),
            Sock::Tcp(t) => t.set_read_timeout(d),
        };
    }
    fn read_some(&mut self, buf: &mut [u8]) -> std::io::Result<usize> {
        match &mut self.s {
            Sock::Unix(u) => u.read(buf),
            Sock::Tcp(t) => t.read(buf),
        }
    }
    /// Next NUL-terminated frame (without the NUL), EOF, or timeout.
    pub fn read_frame(&mut self, timeout: Duration) -> ReadEv {
        let deadline = Instant::now() + timeout;
        loop {
            if let Some(p) = self.rbuf.iter().position(|&b| b == 0) {
                let f: Vec<u8> = self.rbuf.drain(..=p).collect();
                return ReadEv::Frame(f[..f.len() - 1].to_vec());
            }
            if self.eof {
                return ReadEv::Eof;
            }
            let now = Instant::now();
            if now >= deadline {
                return ReadEv::Timeout;
            }
            self.set_timeout(deadline - now);
            let mut buf = [0u8; 65536];
            match self.read_some(&mut buf) {
                Ok(0) => self.eof = true,
                Ok(n) => self.rbuf.extend_from_slice(&buf[..n]),
                Err(e) if e.kind() == std::io::ErrorKind::WouldBlock || e.kind() == std::io::ErrorKind::TimedOut => return ReadEv::Timeout,
                Err(e) if e.kind() == std::io::ErrorKind::Interrupted => {}
                Err(e) if e.kind() == std::io::ErrorKind::ConnectionReset => self.eof = true,
                Err(e) => return ReadEv::Error(e.to_string()),
            }
        }
    }
    /// Read raw bytes until EOF or timeout; returns (bytes, reached_eof).
    pub fn read_to_eof(&mut self, timeout: Duration) -> (Vec<u8>, bool) {
        let deadline = Instant::now() + timeout;
        let mut out = std::mem::take(&mut self.rbuf);
        loop {
            if self.eof {
                return (out, true);
            }
            let now = Instant::now();
            if now >= deadline {
                return (out, false);
            }
            self.set_timeout(deadline - now);
            let mut buf = [0u8; 65536];
            match self.read_some(&mut buf) {
                Ok(0) => self.eof = true,
                Ok(n) => out.extend_from_slice(&buf[..n]),
                Err(e) if e.kind() == std::io::ErrorKind::WouldBlock || e.kind() == std::io::ErrorKind::TimedOut => return (out, false),
                Err(e) if e.kind() == std::io::ErrorKind::Interrupted => {}
                Err(_) => self.eof = true,
            }
        }
    }
}
