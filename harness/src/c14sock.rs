//! C14 hook-free cross-check through real sockets: listen() with max_worker_threads = M,
//! clients blocked inside a gated method; count of simultaneously blocked calls.
use crate::core::*;
use crate::sock::*;
use crate::svc::*;
use serde_json::json;
use std::time::{Duration, Instant};

fn block_req(token: &str) -> Vec<u8> {
    let mut b = serde_json::to_vec(&json!({"method": "org.verif.t.Block", "parameters": {"token": token}})).unwrap();
    b.push(0);
    b
}

fn wait_inside(gate: &Gate, want: usize, dur: Duration) -> usize {
    let deadline = Instant::now() + dur;
    let mut st = gate.state.lock().unwrap();
    loop {
        if st.inside >= want {
            return st.inside;
        }
        let now = Instant::now();
        if now >= deadline {
            return st.inside;
        }
        let (g, _) = gate.cv.wait_timeout(st, deadline - now).unwrap();
        st = g;
    }
}

/// One round. `burst`: connect and send all K requests back to back (true) or wait for each to
/// be in service before the next (false).
pub fn round(ctx: &Ctx, initial: usize, max: usize, k: usize, burst: bool, tr: Transport, round_no: usize) {
    let gate = Gate::new();
    let svc = standard_service(SvcCfg { gate: Some(gate.clone()), ..Default::default() });
    let mut server = match Server::start(svc, tr, ServerCfg { initial, max, idle_timeout: 0, with_stop_flag: true }) {
        Ok(s) => s,
        Err(e) => {
            ctx.inconclusive(json!({ "server_start": e }));
            return;
        }
    };
    // readiness probe without consuming a worker for long: the probe connection closes at once
    if server.wait_ready().is_err() {
        ctx.inconclusive(json!({"server_ready": "no"}));
        return;
    }
    // let the probe connection's job finish (it is a connection like any other)
    std::thread::sleep(Duration::from_millis(20));
    let mut conns: Vec<RawConn> = Vec::new();
    let expect = k.min(max);
    let wit = |m: String, inside: usize, maxin: usize| json!({"engine": "c14-sockets", "initial_worker_threads": initial, "max_worker_threads": max, "clients": k, "burst": burst, "transport": format!("{:?}", tr), "round": round_no, "in_service_now": inside, "max_in_service_seen": maxin, "message": m});
    for i in 0..k {
        match RawConn::connect(&server.address) {
            Ok(mut c) => {
                let _ = c.write_all(&block_req(&format!("b{}", i)));
                conns.push(c);
            }
            Err(e) => {
                ctx.inconclusive(json!({"connect": e.to_string()}));
            }
        }
        if !burst {
            wait_inside(&gate, (i + 1).min(max), Duration::from_secs(10));
        }
    }
    let inside = wait_inside(&gate, expect, Duration::from_secs(10));
    // settle: give extra workers (if any) the chance to exceed the bound
    std::thread::sleep(Duration::from_millis(30));
    let (inside_now, maxin) = {
        let st = gate.state.lock().unwrap();
        (st.inside, st.max_inside)
    };
    ctx.case(Some(hash_of(&(initial, max, k, burst, format!("{:?}", tr)))));
    ctx.count("socket_rounds", 1);
    ctx.count("blocked_calls_observed", inside_now as u64);
    if maxin > max {
        ctx.violation(&format!("c14:bound-exceeded:{}", if initial > max { "initial>max" } else { "initial<=max" }), wit(format!("{} connections in service at once with max_worker_threads={}", maxin, max), inside_now, maxin));
    } else if inside < expect {
        // stranded or slow? poke with a further connection: if that makes a waiting one start,
        // it was waiting for a further connection to arrive.
        let poke = RawConn::connect(&server.address);
        let after = wait_inside(&gate, inside + 1, Duration::from_secs(2));
        if after > inside {
            ctx.violation("c14:stranded-until-further-connection", wit(format!("only {} of {} accepted connections in service after 10 s with max={}; a further connection made one more start", inside, k, max), inside, maxin));
        } else {
            // release one? all block on the same gate: open it and see whether everyone completes
            ctx.inconclusive(json!({"why": "fewer in service than expected after 10 s, and a further connection did not change it", "initial": initial, "max": max, "k": k, "inside": inside}));
        }
        drop(poke);
    }
    gate.open();
    // every client gets its reply (nothing stranded forever, no reply lost)
    // A worker stays with its connection until the client closes it, so close each one as soon
    // as it is answered (otherwise connections beyond `max` could never be served).
    let total = conns.len();
    let mut answered = 0;
    let deadline = Instant::now() + Duration::from_secs(30);
    while !conns.is_empty() && Instant::now() < deadline {
        let mut i = 0;
        while i < conns.len() {
            match conns[i].read_frame(Duration::from_millis(20)) {
                ReadEv::Frame(_) => {
                    answered += 1;
                    conns.swap_remove(i);
                }
                ReadEv::Timeout => i += 1,
                _ => {
                    conns.swap_remove(i);
                }
            }
        }
    }
    if answered != total {
        ctx.violation("c14:connection-never-served", wit(format!("{} of {} clients got their reply after the gate opened", answered, total), inside_now, maxin));
    }
    drop(conns);
    let _ = server.stop();
}

/// Random open/close histories. A connection is "in service" once its Echo is answered (a worker
/// is reading it) and stays so until the client closes it. Model: with fewer than `max` in
/// service, every accepted connection must get served without anything else happening.
pub fn history_round(ctx: &Ctx, initial: usize, max: usize, len: usize, seed: u64, round_no: usize) {
    let svc = standard_service(SvcCfg::default());
    let mut server = match Server::start(svc, Transport::UnixPath, ServerCfg { initial, max, idle_timeout: 0, with_stop_flag: true }) {
        Ok(s) => s,
        Err(e) => {
            ctx.inconclusive(json!({ "server_start": e }));
            return;
        }
    };
    // wait for the socket without a probe connection (it would itself be a job)
    let path = server.address.trim_start_matches("unix:").to_string();
    let t = Instant::now();
    while !std::path::Path::new(&path).exists() && t.elapsed() < Duration::from_secs(10) {
        std::thread::sleep(Duration::from_millis(1));
    }
    let mut rng = Rng::lane(seed, 9100 + round_no as u64);
    let mut conns: Vec<(usize, RawConn, bool)> = Vec::new(); // (id, conn, answered)
    let mut next_id = 0;
    let mut hist: Vec<String> = Vec::new();
    let echo = |id: usize| -> Vec<u8> {
        let mut b = serde_json::to_vec(&json!({"method": "org.verif.t.Echo", "parameters": {"token": format!("h{}", id)}})).unwrap();
        b.push(0);
        b
    };
    for _ in 0..len {
        let open = conns.is_empty() || (conns.len() < max + 2 && rng.chance(3, 5));
        if open {
            if let Ok(mut c) = RawConn::connect(&server.address) {
                let _ = c.write_all(&echo(next_id));
                hist.push(format!("open{}", next_id));
                conns.push((next_id, c, false));
                next_id += 1;
            }
        } else {
            // close one: preferably an answered (in service) one, sometimes a queued one
            let k = rng.below(conns.len());
            let (id, c, _) = conns.remove(k);
            hist.push(format!("close{}", id));
            drop(c);
        }
        // after every step: the `min(open, max)` connections the pool can serve must all be
        // answered — which ones is up to the queue order, so count them
        let want = conns.len().min(max);
        let deadline = Instant::now() + Duration::from_secs(10);
        loop {
            for (_, c, answered) in conns.iter_mut() {
                if !*answered {
                    if let ReadEv::Frame(_) = c.read_frame(Duration::from_millis(2)) {
                        *answered = true;
                    }
                }
            }
            let have = conns.iter().filter(|c| c.2).count();
            if have >= want || Instant::now() >= deadline {
                break;
            }
        }
        let have = conns.iter().filter(|c| c.2).count();
        ctx.count("history_steps_observed", 1);
        if have > max {
            ctx.violation("c14:bound-exceeded:history", json!({"engine": "c14-sockets-history", "initial_worker_threads": initial, "max_worker_threads": max, "history": hist, "in_service": have, "seed": seed, "round": round_no}));
            break;
        }
        if have < want {
            // confirm logically: does closing an in-service connection, or a further one
            // arriving, make a waiting one start? then it was stranded
            let poke = RawConn::connect(&server.address);
            std::thread::sleep(Duration::from_millis(300));
            let mut after = 0;
            for (_, c, answered) in conns.iter_mut() {
                if !*answered {
                    if let ReadEv::Frame(_) = c.read_frame(Duration::from_millis(50)) {
                        *answered = true;
                    }
                }
                if *answered {
                    after += 1;
                }
            }
            drop(poke);
            let mut how = "a further connection arrived";
            if after <= have {
                if let Some(k) = conns.iter().position(|c| c.2) {
                    let (_, c, _) = conns.remove(k);
                    drop(c);
                    std::thread::sleep(Duration::from_millis(500));
                    after = 0;
                    for (_, c, answered) in conns.iter_mut() {
                        if !*answered {
                            if let ReadEv::Frame(_) = c.read_frame(Duration::from_millis(50)) {
                                *answered = true;
                            }
                        }
                        if *answered {
                            after += 1;
                        }
                    }
                    how = "another connection finished";
                    // one was removed from the answered set
                    after += 1;
                }
            }
            if after > have {
                ctx.violation(
                    "c14:stranded:history",
                    json!({"engine": "c14-sockets-history", "initial_worker_threads": initial, "max_worker_threads": max, "history": hist, "in_service": have, "expected_in_service": want, "seed": seed, "round": round_no,
                        "message": format!("only {} of {} accepted connections were served although max={}; a waiting one started only after {}", have, conns.len(), max, how)}),
                );
            } else {
                ctx.inconclusive(json!({"why": "fewer served than expected after 10 s, not explained by a poke or a close", "history": hist}));
            }
            break;
        }
    }
    ctx.case(Some(hash_of(&("history", initial, max, &hist))));
    drop(conns);
    let _ = server.stop();
}

/// One pass of the quiet-period history: connection A is answered and stays open; `max - 1`
/// further connections are answered (the pool grows to its bound) and closed; `gap` of silence;
/// then `max - 1` connections are opened one after the other and left open - with A that makes
/// `max` in service, so each of them must be answered. Ok(Err(..)) = one was not.
fn quiet_pass(initial: usize, max: usize, gap: Duration, reverse: bool, tag: &str) -> Result<Result<usize, String>, String> {
    let mut server = Server::start(standard_service(SvcCfg::default()), Transport::UnixPath, ServerCfg { initial, max, idle_timeout: 0, with_stop_flag: true })?;
    server.wait_ready()?;
    std::thread::sleep(Duration::from_millis(20));
    let echo = |c: &mut RawConn, tok: &str, wait: Duration| -> Result<bool, String> {
        c.write_all(&crate::model::Req::new(crate::model::Kind::Echo, crate::model::Flags { more: false, oneway: false }, tok).to_bytes()).map_err(|e| format!("write: {}", e))?;
        match c.read_frame(wait) {
            ReadEv::Frame(f) if String::from_utf8_lossy(&f).contains(tok) => Ok(true),
            ReadEv::Frame(_) => Err("foreign or wrong reply".into()),
            ReadEv::Timeout => Ok(false),
            ReadEv::Eof => Err("closed by the service".into()),
            ReadEv::Error(e) => Err(e),
        }
    };
    let mut a = RawConn::connect(&server.address).map_err(|e| format!("connect: {}", e))?;
    if !echo(&mut a, &format!("{}A", tag), Duration::from_secs(20))? {
        return Err("first connection not answered within 20 s".into());
    }
    let mut spare = Vec::new();
    for i in 1..max {
        let mut c = RawConn::connect(&server.address).map_err(|e| format!("connect: {}", e))?;
        if !echo(&mut c, &format!("{}B{}", tag, i), Duration::from_secs(20))? {
            return Err("connection not answered within 20 s before the quiet period".into());
        }
        spare.push(c);
    }
    if reverse {
        spare.reverse();
    }
    for mut c in spare {
        c.shutdown_both();
        drop(c);
        std::thread::sleep(Duration::from_millis(3));
    }
    std::thread::sleep(gap);
    let mut held = Vec::new();
    let mut verdict = Ok(max - 1);
    for j in 1..max {
        let mut c = RawConn::connect(&server.address).map_err(|e| format!("connect: {}", e))?;
        if !echo(&mut c, &format!("{}C{}", tag, j), Duration::from_secs(8))? {
            verdict = Err(format!(
                "initial {} / max {}: one connection open throughout, {} more served and closed, {:.1} s of silence, then connection #{} got no reply within 8 s with {} of {} in service",
                initial,
                max,
                max - 1,
                gap.as_secs_f64(),
                j,
                held.len() + 1,
                max
            ));
            break;
        }
        held.push(c);
    }
    drop(held);
    drop(a);
    let _ = server.stop();
    Ok(verdict)
}

/// Quiet periods are where a pool's timers (idle reaping, keep-alive) act; the gate rounds and
/// the random histories never pause that long. Judged after a repetition on a fresh server.
pub fn quiet_round(ctx: &Ctx, initial: usize, max: usize, gap: Duration, reverse: bool, tag: &str) {
    let mut fails = Vec::new();
    for attempt in 0..2 {
        match quiet_pass(initial, max, gap, reverse, &format!("{}a{}", tag, attempt)) {
            Err(e) => {
                ctx.inconclusive(json!({"quiet_round": e, "gap_s": gap.as_secs_f64()}));
                return;
            }
            Ok(Ok(n)) => {
                if attempt == 0 {
                    ctx.case(Some(hash_of(&("quiet-round", initial, max, gap.as_millis() as u64, reverse))));
                    ctx.count("quiet_period_histories", 1);
                    ctx.count("connections_served_after_quiet_period", n as u64);
                } else {
                    ctx.inconclusive(json!({"quiet_round": "a connection went unanswered once but not on a fresh server", "first": fails}));
                }
                return;
            }
            Ok(Err(m)) => fails.push(m),
        }
    }
    ctx.violation(
        "c14:connection-stranded-after-quiet-period",
        json!({"engine": "c14-quiet", "initial_worker_threads": initial, "max_worker_threads": max, "gap_ms": gap.as_millis() as u64, "reverse": reverse, "message": fails}),
    );
}

pub fn run(ctx: &Ctx) {
    let gaps: Vec<u64> = ctx.tier.pick(vec![2600], vec![1100, 2600, 5500, 11_000, 31_000]);
    std::thread::scope(|sc| {
        for (gi, g) in gaps.iter().enumerate() {
            let g = *g;
            for (ci, (i, m)) in [(1usize, 4usize), (2, 3), (1, 2)].into_iter().enumerate() {
                sc.spawn(move || quiet_round(ctx, i, m, Duration::from_millis(g), (gi + ci) % 2 == 1, &format!("q{}c{}", gi, ci)));
            }
        }
        run_rounds(ctx);
    });
}

fn run_rounds(ctx: &Ctx) {
    let cfgs: Vec<(usize, usize)> = vec![(1, 1), (1, 2), (1, 4), (2, 2), (2, 4), (3, 4), (3, 1), (2, 1), (1, 3), (3, 3)];
    let hrounds = ctx.tier.pick(120usize, 4000usize);
    par(8, |w| {
        let mut r = w;
        while r < hrounds {
            if ctx.violations() >= 3 {
                break;
            }
            let (i, m) = cfgs[r % cfgs.len()];
            history_round(ctx, i, m, 6 + r % 9, ctx.seed, r);
            r += 8;
        }
    });
    let rounds = ctx.tier.pick(24usize, 500usize);
    par(6, |w| {
        let mut rng = Rng::lane(ctx.seed, 900 + w as u64);
        let mut r = w;
        while r < rounds {
            let (i, m) = cfgs[r % cfgs.len()];
            let k = m + rng.range(0, 2);
            let burst = (r / cfgs.len()) % 2 == 0;
            let tr = if rng.chance(1, 4) { Transport::Tcp } else { Transport::UnixPath };
            round(ctx, i, m, k, burst, tr, r);
            r += 6;
        }
    });
}
