//! C08: generated bindings put exactly the IDL on the wire (client/server round trip).
//! The harness emits a driver crate: modules produced by the generator under test + drivers
//! whose trait-impl signatures are copied token-for-token from the emitted `trait
//! VarlinkInterface`. The driver taps the bytes between generated client and generated server
//! and reports what it saw; the judgment (against expected JSON built from the IDL alone)
//! happens here.
use crate::core::*;
use crate::gen::*;
use crate::idl::*;
use serde_json::{json, Map, Value};
use std::collections::HashMap;
use std::process::Command;

// ------------------------------------------------------------------ IDL-directed values

const STRS: &[&str] = &["", "a", "ü", "日本", "😀", "q\"uote", "back\\slash", "nl\nline", "\u{1}", " sp ", "null", "{}"];
const INTS: &[i64] = &[0, 1, -1, 42, i64::MAX, i64::MIN, 9007199254740993, -2147483649];
const FLOATS: &[f64] = &[0.5, -1.25, 1e10, 3.25, 123456.789, -0.001];

pub fn gen_value(rng: &mut Rng, t: &Ty, defs: &HashMap<String, Ty>, depth: usize) -> Value {
    match t {
        Ty::Bool => json!(rng.chance(1, 2)),
        Ty::Int => json!(*rng.pick(INTS)),
        Ty::Float => json!(*rng.pick(FLOATS)),
        Ty::Str => json!(*rng.pick(STRS)),
        Ty::Object => match rng.below(6) {
            0 => json!({"free": [1, "x", {"y": true}]}),
            // a foreign payload is passed on untouched: its null members are data
            5 => json!({"gone": null, "deep": {"also": null, "kept": 1}, "list": [null, {"n": null}]}),
            1 => json!([1, 2]),
            2 => json!("str"),
            3 => json!(7),
            _ => json!({}),
        },
        Ty::Name(n) => match defs.get(n) {
            Some(d) => gen_value(rng, d, defs, depth),
            None => Value::Null,
        },
        Ty::Enum(es) => json!(rng.pick(es)),
        Ty::Struct(fs) => {
            let mut m = Map::new();
            for (n, ft) in fs {
                m.insert(n.clone(), gen_value(rng, ft, defs, depth));
            }
            Value::Object(m)
        }
        Ty::Array(i) => {
            let n = if depth == 0 { 0 } else { rng.below(3) };
            Value::Array((0..n).map(|_| gen_value(rng, i, defs, depth - 1)).collect())
        }
        Ty::Dict(i) => {
            let n = if depth == 0 { 0 } else { rng.below(3) };
            let mut m = Map::new();
            for _ in 0..n {
                let k = *rng.pick(&["k", "", "ü", "key 2", "q\"", "z"]);
                // a string set: every element maps to an empty object
                let v = if matches!(**i, Ty::Struct(ref f) if f.is_empty()) { json!({}) } else { gen_value(rng, i, defs, depth - 1) };
                m.insert(k.to_string(), v);
            }
            Value::Object(m)
        }
        Ty::Opt(i) => {
            if rng.chance(1, 3) {
                Value::Null
            } else {
                gen_value(rng, i, defs, depth)
            }
        }
    }
}

/// null-valued object members are equivalent to absent ones (statement: "absent optionals
/// omitted or null"); applied to both sides before comparing
pub fn drop_nulls(v: &Value) -> Value {
    match v {
        Value::Object(m) => Value::Object(m.iter().filter(|(_, x)| !x.is_null()).map(|(k, x)| (k.clone(), drop_nulls(x))).collect()),
        Value::Array(a) => Value::Array(a.iter().map(drop_nulls).collect()),
        o => o.clone(),
    }
}

/// Type-directed form of "absent optionals are omitted or null": a null is dropped only where the
/// IDL says *optional struct field*; a null VALUE of a map entry (`[string]?T`) or inside a foreign
/// `object` is data and stays.
pub fn norm_typed(v: &Value, t: &Ty, defs: &HashMap<String, Ty>) -> Value {
    let resolved = match t {
        Ty::Name(x) => defs.get(x).cloned().unwrap_or(Ty::Object),
        o => o.clone(),
    };
    match (&resolved, v) {
        (Ty::Struct(fs), Value::Object(m)) => {
            let mut out = Map::new();
            for (k, x) in m {
                match fs.iter().find(|(n, _)| n == k) {
                    Some((_, Ty::Opt(_))) if x.is_null() => {}
                    Some((_, ft)) => {
                        out.insert(k.clone(), norm_typed(x, ft, defs));
                    }
                    None => {
                        out.insert(k.clone(), x.clone());
                    }
                }
            }
            Value::Object(out)
        }
        (Ty::Opt(inner), x) if !x.is_null() => norm_typed(x, inner, defs),
        (Ty::Array(et), Value::Array(a)) => Value::Array(a.iter().map(|x| norm_typed(x, et, defs)).collect()),
        (Ty::Dict(et), Value::Object(m)) => Value::Object(m.iter().map(|(k, x)| (k.clone(), norm_typed(x, et, defs))).collect()),
        (_, x) => x.clone(),
    }
}

/// a parameter object with one field removed / retyped (must be answered with InvalidParameter)
/// A value that is NOT of type `t`: either retyped at this level or, below structs / arrays /
/// maps / present optionals, at a random depth (e.g. a string set one of whose members is `7`
/// instead of `{}`).  None when every JSON value fits (`object`).
fn ill_typed(rng: &mut Rng, t: &Ty, good: &Value, defs: &HashMap<String, Ty>, depth: usize) -> Option<(Value, String)> {
    let resolved = match t {
        Ty::Name(x) => defs.get(x).cloned().unwrap_or(Ty::Str),
        o => o.clone(),
    };
    if depth > 0 && rng.chance(2, 3) {
        match &resolved {
            Ty::Struct(fs) if !fs.is_empty() => {
                let (n, ft) = rng.pick(fs).clone();
                let child = match good.get(&n) {
                    Some(c) if !c.is_null() => c.clone(),
                    _ => gen_value(rng, &ft, defs, 1),
                };
                if let Some((v, w)) = ill_typed(rng, &ft, &child, defs, depth - 1) {
                    let mut o = good.as_object().cloned().unwrap_or_default();
                    o.insert(n.clone(), v);
                    return Some((Value::Object(o), format!("{}.{}", n, w)));
                }
            }
            Ty::Array(et) => {
                let elem = good.get(0).cloned().unwrap_or_else(|| gen_value(rng, et, defs, 1));
                if let Some((v, w)) = ill_typed(rng, et, &elem, defs, depth - 1) {
                    let mut a = good.as_array().cloned().unwrap_or_default();
                    a.push(v);
                    return Some((Value::Array(a), format!("[last].{}", w)));
                }
            }
            Ty::Dict(et) => {
                let elem = gen_value(rng, et, defs, 1);
                if let Some((v, w)) = ill_typed(rng, et, &elem, defs, depth - 1) {
                    let mut o = good.as_object().cloned().unwrap_or_default();
                    o.insert("illtyped".into(), v);
                    return Some((Value::Object(o), format!("[illtyped].{}", w)));
                }
            }
            Ty::Opt(inner) => {
                let child = if good.is_null() { gen_value(rng, inner, defs, 1) } else { good.clone() };
                return ill_typed(rng, inner, &child, defs, depth);
            }
            _ => {}
        }
    }
    let wrong = match &resolved {
        Ty::Bool => json!("true"),
        Ty::Int => json!("1"),
        Ty::Float => json!("1.5"),
        Ty::Str => json!(5),
        Ty::Enum(_) => json!("no-such-variant"),
        Ty::Struct(_) => json!(7),
        Ty::Array(_) => json!({"not": "an array"}),
        Ty::Dict(_) => json!([1]),
        Ty::Opt(inner) => return ill_typed(rng, inner, good, defs, 0),
        _ => return None,
    };
    Some((wrong.clone(), format!("retyped to {}", wrong)))
}

fn bad_params(rng: &mut Rng, fs: &[(String, Ty)], good: &Value, defs: &HashMap<String, Ty>) -> Option<(Value, String)> {
    let required: Vec<&(String, Ty)> = fs.iter().filter(|(_, t)| !matches!(t, Ty::Opt(_) | Ty::Object)).collect();
    let mut m = good.as_object().cloned().unwrap_or_default();
    if !required.is_empty() && rng.chance(1, 4) {
        let (n, _) = rng.pick(&required);
        m.remove(n);
        return Some((Value::Object(m), format!("{} removed", n)));
    }
    // a few attempts: some fields (`object`) admit no ill-typed value
    for _ in 0..6 {
        if fs.is_empty() {
            return None;
        }
        let (n, t) = rng.pick(fs).clone();
        let child = match good.get(&n) {
            Some(c) => c.clone(),
            None => Value::Null,
        };
        if let Some((v, w)) = ill_typed(rng, &t, &child, defs, 3) {
            m.insert(n.clone(), v);
            return Some((Value::Object(m), format!("{} {}", n, w)));
        }
    }
    None
}

// ------------------------------------------------------------------ emitted-signature scanning

/// Extract `fn <name> (...) -> varlink :: Result < () > ;` declarations from the emitted
/// `pub trait VarlinkInterface { ... }` (token-stream text). Returns (fn name, full signature
/// without the trailing ';', argument names after `call`).
pub fn scan_trait(code: &str) -> Result<Vec<(String, String, Vec<String>)>, String> {
    let start = code.find("pub trait VarlinkInterface {").ok_or("no `pub trait VarlinkInterface` in the emitted code")?;
    let body = &code[start + "pub trait VarlinkInterface {".len()..];
    let mut out = Vec::new();
    let mut rest = body;
    loop {
        let rest_t = rest.trim_start();
        if !rest_t.starts_with("fn ") {
            break;
        }
        // a declaration ends with ';' at nesting depth 0; call_upgraded has a body '{'
        let mut depth = 0i32;
        let mut end = None;
        for (i, c) in rest_t.char_indices() {
            match c {
                '(' | '<' | '[' => depth += 1,
                ')' | ']' => depth -= 1,
                '>' => {
                    // `->` is not a closing bracket
                    if i > 0 && rest_t.as_bytes()[i - 1] == b'-' {
                    } else {
                        depth -= 1
                    }
                }
                ';' if depth == 0 => {
                    end = Some((i, true));
                    break;
                }
                '{' if depth == 0 => {
                    end = Some((i, false));
                    break;
                }
                _ => {}
            }
        }
        let (e, is_decl) = end.ok_or("unterminated fn in trait")?;
        if !is_decl {
            break;
        }
        let sig = rest_t[..e].trim().to_string();
        let name = sig[3..].split('(').next().unwrap_or("").trim().to_string();
        // arguments: text between the first '(' and its matching ')'
        let open = sig.find('(').ok_or("no ( in signature")?;
        let mut d = 0;
        let mut close = open;
        for (i, c) in sig[open..].char_indices() {
            match c {
                '(' => d += 1,
                ')' => {
                    d -= 1;
                    if d == 0 {
                        close = open + i;
                        break;
                    }
                }
                _ => {}
            }
        }
        let args_txt = &sig[open + 1..close];
        let mut args = Vec::new();
        let mut d = 0;
        let mut cur = String::new();
        for (i, c) in args_txt.char_indices() {
            match c {
                '(' | '<' | '[' => d += 1,
                ')' | ']' => d -= 1,
                '>' => {
                    if !(i > 0 && args_txt.as_bytes()[i - 1] == b'-') {
                        d -= 1
                    }
                }
                _ => {}
            }
            if c == ',' && d == 0 {
                args.push(cur.trim().to_string());
                cur.clear();
            } else {
                cur.push(c);
            }
        }
        if !cur.trim().is_empty() {
            args.push(cur.trim().to_string());
        }
        // skip `& self` and `call : ...`
        let names: Vec<String> = args.iter().skip(2).map(|a| a.split(':').next().unwrap_or("").trim().to_string()).collect();
        out.push((name, sig, names));
        rest = &rest_t[e + 1..];
    }
    Ok(out)
}

fn raw(n: &str) -> String {
    // the four identifiers that cannot be raw are emitted with a trailing underscore
    if ["self", "Self", "super", "crate"].contains(&n) {
        format!("{}_", n)
    } else {
        format!("r#{}", n)
    }
}

/// Driver module text for one generated module.
fn driver(i: usize, idl: &Idl, sigs: &[(String, String, Vec<String>)]) -> Result<String, String> {
    let methods: Vec<&Member> = idl.members.iter().filter(|m| m.kind == MKind::Method).collect();
    let errors: Vec<&Member> = idl.members.iter().filter(|m| m.kind == MKind::Error).collect();
    if sigs.len() != methods.len() {
        return Err(format!("{} methods in the definition, {} declarations in the emitted trait", methods.len(), sigs.len()));
    }
    // the emitted trait lists methods in its own order: match them by the documented name
    let mut ordered: Vec<(String, String, Vec<String>)> = Vec::new();
    for m in &methods {
        match sigs.iter().find(|s| s.0 == snake(&m.name) || s.0 == format!("r#{}", snake(&m.name))) {
            Some(sg) => ordered.push(sg.clone()),
            None => return Err(format!("no `fn {}` in the emitted trait for method {}", snake(&m.name), m.name)),
        }
    }
    let sigs = &ordered[..];
    let mut s = String::new();
    s.push_str(&format!("pub mod d{i} {{\n    use super::m{i} as g;\n    #[allow(unused_imports)] use super::m{i}::*;\n    use serde_json::{{json, Value, from_value, to_value}};\n    #[allow(unused_imports)] use varlink::CallTrait;\n    #[allow(unused_imports)] use g::VarlinkClientInterface;\n    #[allow(unused_imports)] use g::VarlinkCallError;\n    pub struct Srv;\n    impl g::VarlinkInterface for Srv {{\n", i = i));
    for (m, (fname, sig, argnames)) in methods.iter().zip(sigs.iter()) {
        let infields = match &m.a {
            Ty::Struct(f) => f.clone(),
            _ => vec![],
        };
        let outfields = match m.b.as_ref() {
            Some(Ty::Struct(f)) => f.clone(),
            _ => vec![],
        };
        if argnames.len() != infields.len() {
            return Err(format!("method {}: {} input fields, emitted signature has {} arguments: {}", m.name, infields.len(), argnames.len(), sig));
        }
        let _ = fname;
        s.push_str(&format!("        {} {{\n            let mut seen = serde_json::Map::new();\n", sig));
        for ((n, _), an) in infields.iter().zip(argnames.iter()) {
            // positional: the k-th argument carries the k-th IDL field
            s.push_str(&format!("            seen.insert({:?}.to_string(), to_value(&{}).unwrap());\n", n, an));
        }
        s.push_str(&format!("            crate::rt::record_args({:?}, Value::Object(seen));\n            let sc = crate::rt::next_script();\n            let kind = sc[\"kind\"].as_str().unwrap_or(\"\").to_string();\n", m.name));
        let reply_args: Vec<String> = outfields.iter().map(|(n, _)| format!("r.{}", raw(n))).collect();
        s.push_str(&format!(
            "            if kind == \"reply\" {{\n                let r: g::{m}_Reply = match from_value(sc[\"value\"].clone()) {{ Ok(r) => r, Err(e) => {{ crate::rt::harness_error(format!(\"script value does not fit {m}_Reply: {{}}\", e)); return Err(varlink::context!(varlink::ErrorKind::ConnectionClosed)); }} }};\n                return call.reply({args});\n            }}\n",
            m = m.name,
            args = reply_args.join(", ")
        ));
        s.push_str(&format!(
            "            if kind == \"stream\" {{\n                let vals = sc[\"values\"].as_array().cloned().unwrap_or_default();\n                let n = vals.len();\n                for (k, v) in vals.into_iter().enumerate() {{\n                    call.set_continues(k + 1 < n);\n                    let r: g::{m}_Reply = match from_value(v) {{ Ok(r) => r, Err(e) => {{ crate::rt::harness_error(format!(\"script value does not fit {m}_Reply: {{}}\", e)); return Err(varlink::context!(varlink::ErrorKind::ConnectionClosed)); }} }};\n                    call.reply({args})?;\n                }}\n                return Ok(());\n            }}\n",
            m = m.name,
            args = reply_args.join(", ")
        ));
        for e in &errors {
            let ef = match &e.a {
                Ty::Struct(f) => f.clone(),
                _ => vec![],
            };
            let eargs: Vec<String> = ef.iter().map(|(n, _)| format!("a.{}", raw(n))).collect();
            s.push_str(&format!(
                "            if kind == \"error:{e}\" {{\n                let a: g::{e}_Args = match from_value(sc[\"value\"].clone()) {{ Ok(a) => a, Err(x) => {{ crate::rt::harness_error(format!(\"script value does not fit {e}_Args: {{}}\", x)); return Err(varlink::context!(varlink::ErrorKind::ConnectionClosed)); }} }};\n                let _ = &a;\n                return g::VarlinkCallError::reply_{sn}(call, {args});\n            }}\n",
                e = e.name,
                sn = snake(&e.name),
                args = eargs.join(", ")
            ));
        }
        s.push_str("            crate::rt::harness_error(format!(\"unknown script kind {}\", kind));\n            Ok(())\n        }\n");
    }
    s.push_str("    }\n");
    // error rendering
    s.push_str("    fn err_json(e: &g::Error) -> Value {\n        match e.kind() {\n");
    for e in &errors {
        s.push_str(&format!("            g::ErrorKind::{e}(a) => json!({{\"variant\": {q:?}, \"args\": a.as_ref().map(|x| to_value(x).unwrap())}}),\n", e = e.name, q = e.name));
    }
    s.push_str("            g::ErrorKind::Varlink_Error => json!({\"variant\": \"Varlink_Error\", \"source\": format!(\"{:?}\", e.source_varlink_kind())}),\n            g::ErrorKind::VarlinkReply_Error => json!({\"variant\": \"VarlinkReply_Error\", \"source\": format!(\"{:?}\", e.source_varlink_kind())}),\n        }\n    }\n");
    // client driver
    s.push_str("    pub fn drive(cases: &Value) -> Value {\n        let (conn, mut _tap) = crate::rt::setup(Box::new(g::new(Box::new(Srv))));\n        let mut client = g::VarlinkClient::new(conn);\n        let _ = &mut client;\n        let mut results: Vec<Value> = Vec::new();\n        for case in cases.as_array().cloned().unwrap_or_default() {\n            if _tap.is_finished() {\n                // the previous case ended with the service side closing: fresh connection\n                let (c2, t2) = crate::rt::setup(Box::new(g::new(Box::new(Srv))));\n                client = g::VarlinkClient::new(c2);\n                _tap = t2;\n            }\n            crate::rt::begin_case(&case);\n            let before = crate::rt::PROCESSED.load(std::sync::atomic::Ordering::SeqCst);\n            let method = case[\"method\"].as_str().unwrap_or(\"\").to_string();\n            let mode = case[\"mode\"].as_str().unwrap_or(\"call\").to_string();\n            let mut client_result = Value::Null;\n            if mode == \"raw\" {\n                crate::rt::raw_request(Box::new(g::new(Box::new(Srv))), &case[\"raw\"]);\n            }\n");
    for (m, (fname, _sig, _)) in methods.iter().zip(sigs.iter()) {
        let infields = match &m.a {
            Ty::Struct(f) => f.clone(),
            _ => vec![],
        };
        let cargs: Vec<String> = infields.iter().map(|(n, _)| format!("a.{}", raw(n))).collect();
        s.push_str(&format!(
            "            if mode != \"raw\" && method == {q:?} {{\n                let a: g::{m}_Args = match from_value(case[\"args\"].clone()) {{ Ok(a) => a, Err(e) => {{ results.push(json!({{\"harness_error\": format!(\"args do not fit {m}_Args: {{}}\", e)}})); continue; }} }};\n                let _ = &a;\n                if mode == \"call\" {{\n                    client_result = match client.{f}({args}).call() {{ Ok(v) => json!({{\"ok\": to_value(&v).unwrap()}}), Err(e) => json!({{\"err\": err_json(&e)}}) }};\n                }} else if mode == \"oneway\" {{\n                    client_result = match client.{f}({args}).oneway() {{ Ok(()) => json!({{\"ok\": null}}), Err(e) => json!({{\"err\": err_json(&e)}}) }};\n                }} else {{\n                    let mut items: Vec<Value> = Vec::new();\n                    let mut mc = client.{f}({args});\n                    match mc.more() {{\n                        Ok(it) => {{ for x in it {{ items.push(match x {{ Ok(v) => json!({{\"ok\": to_value(&v).unwrap()}}), Err(e) => json!({{\"err\": err_json(&e)}}) }}); if items.len() > 50 {{ break; }} }} }}\n                        Err(e) => items.push(json!({{\"err\": err_json(&e)}})),\n                    }}\n                    client_result = json!({{\"items\": items}});\n                }}\n            }}\n",
            q = m.name,
            m = m.name,
            f = fname,
            args = cargs.join(", ")
        ));
    }
    s.push_str("            results.push(crate::rt::end_case(client_result, if mode == \"raw\" { before } else { before + 1 }, &_tap));\n        }\n        Value::Array(results)\n    }\n}\n");
    Ok(s)
}

const RT: &str = r#"
// shared runtime of the driver crate: byte tap between generated client and generated server
pub mod rt {
    use serde_json::{json, Value};
    use std::io::{BufRead, BufReader, Read, Write};
    use std::os::unix::net::UnixStream;
    use std::sync::{Arc, Mutex, RwLock};
    use varlink::{Connection, ConnectionHandler, VarlinkService};

    pub static PROCESSED: std::sync::atomic::AtomicUsize = std::sync::atomic::AtomicUsize::new(0);
    pub struct CaseState { pub script: Value, pub seen: Vec<Value>, pub wire_requests: Vec<Value>, pub wire_replies: Vec<Value>, pub harness_errors: Vec<String>, pub server_closed: bool }
    static STATE: Mutex<Option<CaseState>> = Mutex::new(None);

    pub fn begin_case(case: &Value) {
        *STATE.lock().unwrap() = Some(CaseState { script: case["script"].clone(), seen: vec![], wire_requests: vec![], wire_replies: vec![], harness_errors: vec![], server_closed: false });
    }
    pub fn end_case(client_result: Value, expect_processed: usize, tap: &std::thread::JoinHandle<()>) -> Value {
        // a oneway call returns before the server has handled it: wait for the tap thread
        let t0 = std::time::Instant::now();
        while PROCESSED.load(std::sync::atomic::Ordering::SeqCst) < expect_processed && !tap.is_finished() && t0.elapsed() < std::time::Duration::from_secs(5) {
            std::thread::sleep(std::time::Duration::from_micros(50));
        }
        let st = STATE.lock().unwrap().take().unwrap();
        json!({"client": client_result, "server_saw": st.seen, "wire_requests": st.wire_requests, "wire_replies": st.wire_replies, "harness_errors": st.harness_errors, "server_closed": st.server_closed})
    }
    pub fn record_args(method: &str, v: Value) { if let Some(s) = STATE.lock().unwrap().as_mut() { s.seen.push(json!({"method": method, "args": v})); } }
    pub fn next_script() -> Value { STATE.lock().unwrap().as_ref().map(|s| s.script.clone()).unwrap_or(Value::Null) }
    pub fn harness_error(m: String) { if let Some(s) = STATE.lock().unwrap().as_mut() { s.harness_errors.push(m); } }

    fn frames_to_values(out: &[u8]) -> Vec<Value> {
        out.split(|b| *b == 0).filter(|f| !f.is_empty()).map(|f| serde_json::from_slice(f).unwrap_or(json!({"unparsable": String::from_utf8_lossy(f)}))).collect()
    }

    pub fn setup(iface: Box<dyn varlink::Interface + Send + Sync>) -> (Arc<RwLock<Connection>>, std::thread::JoinHandle<()>) {
        let svc = VarlinkService::new("v", "p", "1", "u", vec![iface]);
        let (a, b) = UnixStream::pair().unwrap();
        // a reply that never comes must end the case, not the run
        let _ = a.set_read_timeout(Some(std::time::Duration::from_secs(20)));
        let r: Box<dyn Read + Send + Sync> = Box::new(a.try_clone().unwrap());
        let w: Box<dyn Write + Send + Sync> = Box::new(a);
        let mut c = Connection::default();
        c.reader = Some(BufReader::new(r));
        c.writer = Some(w);
        let h = std::thread::spawn(move || {
            let mut rd = BufReader::new(b.try_clone().unwrap());
            let mut wr = b;
            loop {
                let mut buf = Vec::new();
                match rd.read_until(0, &mut buf) { Ok(0) | Err(_) => return, Ok(_) => {} }
                if let Some(s) = STATE.lock().unwrap().as_mut() {
                    let body = if buf.last() == Some(&0) { &buf[..buf.len() - 1] } else { &buf[..] };
                    s.wire_requests.push(serde_json::from_slice(body).unwrap_or(json!({"unparsable": String::from_utf8_lossy(body)})));
                }
                let mut out: Vec<u8> = Vec::new();
                let res = svc.handle(&mut &buf[..], &mut out, None);
                if let Some(s) = STATE.lock().unwrap().as_mut() {
                    s.wire_replies.extend(frames_to_values(&out));
                    if res.is_err() { s.server_closed = true; }
                }
                PROCESSED.fetch_add(1, std::sync::atomic::Ordering::SeqCst);
                if wr.write_all(&out).is_err() { return; }
                if res.is_err() { let _ = wr.shutdown(std::net::Shutdown::Both); return; }
            }
        });
        (Arc::new(RwLock::new(c)), h)
    }

    pub fn raw_request(iface: Box<dyn varlink::Interface + Send + Sync>, req: &Value) {
        let svc = VarlinkService::new("v", "p", "1", "u", vec![iface]);
        let mut b = serde_json::to_vec(req).unwrap();
        b.push(0);
        if let Some(s) = STATE.lock().unwrap().as_mut() { s.wire_requests.push(req.clone()); }
        let mut out: Vec<u8> = Vec::new();
        let res = svc.handle(&mut &b[..], &mut out, None);
        if let Some(s) = STATE.lock().unwrap().as_mut() {
            s.wire_replies.extend(frames_to_values(&out));
            if res.is_err() { s.server_closed = true; }
        }
    }
}
"#;

// ------------------------------------------------------------------ cases and judging

fn defs_of(idl: &Idl) -> HashMap<String, Ty> {
    idl.members.iter().filter(|m| m.kind == MKind::Type).map(|m| (m.name.clone(), m.a.clone())).collect()
}

fn fields(t: &Ty) -> Vec<(String, Ty)> {
    match t {
        Ty::Struct(f) => f.clone(),
        _ => vec![],
    }
}

fn make_cases(rng: &mut Rng, idl: &Idl, per_method: usize) -> Vec<Value> {
    let defs = defs_of(idl);
    let errors: Vec<&Member> = idl.members.iter().filter(|m| m.kind == MKind::Error).collect();
    let mut cases = Vec::new();
    for m in idl.members.iter().filter(|m| m.kind == MKind::Method) {
        let inf = fields(&m.a);
        let outf = fields(m.b.as_ref().unwrap());
        for k in 0..per_method {
            let mut args = gen_value(rng, &Ty::Struct(inf.clone()), &defs, 2);
            if k < 3 && !inf.is_empty() && inf.iter().all(|(_, t)| matches!(t, Ty::Opt(_))) {
                // every optional unset: the arguments serialise to an empty object
                args = json!({});
            }
            let mode = match k % 5 {
                0 | 1 | 2 => "call",
                3 => "more",
                _ => "oneway",
            };
            let script = if mode == "more" {
                let n = rng.range(1, 3);
                json!({"kind": "stream", "values": (0..n).map(|_| gen_value(rng, &Ty::Struct(outf.clone()), &defs, 2)).collect::<Vec<_>>()})
            } else if !errors.is_empty() && rng.chance(1, 3) {
                let e = rng.pick(&errors);
                json!({"kind": format!("error:{}", e.name), "error": e.name, "value": gen_value(rng, &e.a, &defs, 2)})
            } else {
                json!({"kind": "reply", "value": gen_value(rng, &Ty::Struct(outf.clone()), &defs, 2)})
            };
            cases.push(json!({"method": m.name, "mode": mode, "args": args, "script": script}));
        }
        // ill-typed / missing parameters through the server proxy
        for _ in 0..(per_method / 4).max(2) {
            let good = gen_value(rng, &Ty::Struct(inf.clone()), &defs, 2);
            if let Some((bad, what)) = bad_params(rng, &inf, &good, &defs) {
                cases.push(json!({"method": m.name, "mode": "raw", "what": what, "raw": {"method": format!("{}.{}", idl.name, m.name), "parameters": bad}, "script": {"kind": "reply", "value": gen_value(rng, &Ty::Struct(outf.clone()), &defs, 1)}}));
            }
        }
        if !inf.is_empty() && inf.iter().any(|(_, t)| !matches!(t, Ty::Opt(_))) {
            cases.push(json!({"method": m.name, "mode": "raw", "what": "no parameters member", "raw": {"method": format!("{}.{}", idl.name, m.name)}, "script": {"kind": "reply", "value": gen_value(rng, &Ty::Struct(outf.clone()), &defs, 1)}}));
        }
    }
    cases
}

fn judge_case(ctx: &Ctx, idl: &Idl, text: &str, case: &Value, res: &Value) {
    let method = case["method"].as_str().unwrap_or("");
    let mode = case["mode"].as_str().unwrap_or("");
    let full = format!("{}.{}", idl.name, method);
    let m = idl.members.iter().find(|x| x.kind == MKind::Method && x.name == method);
    let has_fields = m.map(|m| !fields(&m.a).is_empty() || !fields(m.b.as_ref().unwrap()).is_empty()).unwrap_or(false);
    ctx.case(if has_fields { Some(hash_of(&(text, method, case.to_string()))) } else { None });
    let wit = |msg: String| json!({"engine": "c08", "definition": text, "case": case, "observed": res, "message": msg});
    if let Some(e) = res.get("harness_error") {
        if e.as_str().map(|s| s.contains("do not fit")).unwrap_or(false) {
            ctx.violation("c08:idl-conformant-value-rejected-by-generated-type", wit(format!("{}", e)));
        } else {
            ctx.inconclusive(json!({"harness": e, "case": case}));
        }
        return;
    }
    if res["harness_errors"].as_array().map(|a| !a.is_empty()).unwrap_or(false) {
        // script values are built from the IDL's own types: if one does not deserialise into the
        // generated reply / error-parameter type, the generated client would reject the same
        // conformant reply coming from a foreign service
        if res["harness_errors"].as_array().unwrap().iter().any(|e| e.as_str().map(|s| s.contains("does not fit")).unwrap_or(false)) {
            ctx.violation("c08:idl-conformant-value-rejected-by-generated-type", wit(format!("{}", res["harness_errors"])));
        } else {
            ctx.inconclusive(json!({"harness": res["harness_errors"], "case": case}));
        }
        return;
    }
    let wire_req = res["wire_requests"].as_array().cloned().unwrap_or_default();
    let wire_rep = res["wire_replies"].as_array().cloned().unwrap_or_default();
    ctx.count("wire_frames_observed", (wire_req.len() + wire_rep.len()) as u64);
    if mode == "raw" {
        let ok = wire_rep.len() == 1 && wire_rep[0]["error"] == "org.varlink.service.InvalidParameter";
        if !ok {
            ctx.violation("c08:bad-parameters-not-answered-with-invalid-parameter", wit(format!("{}: expected one InvalidParameter reply, got {}", case["what"], Value::Array(wire_rep.clone()))));
        } else if res["server_saw"].as_array().map(|a| !a.is_empty()).unwrap_or(false) {
            ctx.violation("c08:bad-parameters-reached-the-implementation", wit("the implementation was called although the parameters do not fit".into()));
        }
        return;
    }
    // 1. request on the wire
    let defs = defs_of(idl);
    let in_ty = Ty::Struct(m.map(|m| fields(&m.a)).unwrap_or_default());
    let out_ty = Ty::Struct(m.map(|m| fields(m.b.as_ref().unwrap())).unwrap_or_default());
    let err_ty = |name: &str| -> Ty { idl.members.iter().find(|x| x.kind == MKind::Error && x.name == name).map(|x| x.a.clone()).unwrap_or(Ty::Object) };
    let drop_nulls_in = |v: &Value| norm_typed(v, &in_ty, &defs);
    let drop_nulls_out = |v: &Value| norm_typed(v, &out_ty, &defs);
    let args = drop_nulls_in(&case["args"]);
    if wire_req.len() != 1 {
        ctx.violation("c08:request-count-on-wire", wit(format!("{} request frames on the wire", wire_req.len())));
        return;
    }
    let rq = &wire_req[0];
    if rq["method"] != json!(full) {
        ctx.violation("c08:request-method-name", wit(format!("method on the wire {} expected {}", rq["method"], full)));
        return;
    }
    let got_params = drop_nulls_in(rq.get("parameters").unwrap_or(&json!({})));
    if got_params != args {
        ctx.violation("c08:request-parameters-on-wire", wit(format!("parameters on the wire {} expected {}", got_params, args)));
        return;
    }
    let want_more = mode == "more";
    let want_oneway = mode == "oneway";
    if (rq["more"] == json!(true)) != want_more || (rq["oneway"] == json!(true)) != want_oneway {
        ctx.violation("c08:request-flags-on-wire", wit(format!("flags on the wire more={} oneway={}", rq["more"], rq["oneway"])));
        return;
    }
    // 2. what the implementation saw
    let seen = res["server_saw"].as_array().cloned().unwrap_or_default();
    if seen.len() != 1 || seen[0]["method"] != json!(method) || drop_nulls_in(&seen[0]["args"]) != args {
        ctx.violation("c08:implementation-saw-different-values", wit(format!("implementation saw {} expected {{method: {}, args: {}}}", Value::Array(seen), method, args)));
        return;
    }
    // 3. replies on the wire
    let script = &case["script"];
    let kind = script["kind"].as_str().unwrap_or("");
    let mut expect_frames: Vec<Value> = Vec::new();
    if !want_oneway {
        if kind == "reply" {
            expect_frames.push(json!({"parameters": drop_nulls_out(&script["value"])}));
        } else if kind == "stream" {
            let vals = script["values"].as_array().cloned().unwrap_or_default();
            let n = vals.len();
            for (k, v) in vals.iter().enumerate() {
                if k + 1 < n {
                    expect_frames.push(json!({"continues": true, "parameters": drop_nulls_out(v)}));
                } else {
                    expect_frames.push(json!({"parameters": drop_nulls_out(v)}));
                }
            }
        } else {
            expect_frames.push(json!({"error": format!("{}.{}", idl.name, script["error"].as_str().unwrap_or("")), "parameters": norm_typed(&script["value"], &err_ty(script["error"].as_str().unwrap_or("")), &defs)}));
        }
    }
    let norm = |f: &Value| -> Value {
        let mut o = f.as_object().cloned().unwrap_or_default();
        if o.get("continues") == Some(&json!(false)) {
            o.remove("continues");
        }
        let p = match o.get("error").and_then(|e| e.as_str()) {
            Some(e) => norm_typed(o.get("parameters").unwrap_or(&json!({})), &err_ty(e.rsplit('.').next().unwrap_or("")), &defs),
            None => drop_nulls_out(o.get("parameters").unwrap_or(&json!({}))),
        };
        // an error without parameters and one with {} are the same on the wire
        o.insert("parameters".into(), p);
        Value::Object(o)
    };
    let got_frames: Vec<Value> = wire_rep.iter().map(norm).collect();
    let exp_norm: Vec<Value> = expect_frames.iter().map(norm).collect();
    if got_frames != exp_norm {
        ctx.violation(&format!("c08:reply-on-wire:{}", if kind.starts_with("error") { "error" } else { kind }), wit(format!("reply frames on the wire {} expected {}", Value::Array(got_frames), Value::Array(exp_norm))));
        return;
    }
    // 4. what the generated client returned
    let client = &res["client"];
    if want_oneway {
        if client != &json!({"ok": null}) {
            ctx.violation("c08:client-oneway-result", wit(format!("oneway returned {}", client)));
        }
        return;
    }
    let expect_item = |f: &Value| -> Value {
        if let Some(e) = f.get("error") {
            let short = e.as_str().unwrap_or("").rsplit('.').next().unwrap_or("").to_string();
            json!({"err": {"variant": short, "args": f["parameters"].clone()}})
        } else {
            json!({"ok": f["parameters"].clone()})
        }
    };
    let norm_item = |v: &Value| -> Value {
        if let Some(ok) = v.get("ok") {
            json!({"ok": drop_nulls_out(ok)})
        } else {
            let e = &v["err"];
            // an error without parameters: `None` on the client, `{}` in the expectation
            let a = norm_typed(e.get("args").unwrap_or(&Value::Null), &err_ty(e["variant"].as_str().unwrap_or("")), &defs);
            json!({"err": {"variant": e["variant"].clone(), "args": if a.is_null() { json!({}) } else { a }}})
        }
    };
    let ok = if want_more {
        let items: Vec<Value> = client["items"].as_array().cloned().unwrap_or_default().iter().map(norm_item).collect();
        let want: Vec<Value> = exp_norm.iter().map(expect_item).collect();
        items == want
    } else {
        norm_item(client) == expect_item(&exp_norm[0])
    };
    if !ok {
        ctx.violation(&format!("c08:client-result:{}", if kind.starts_with("error") { "error" } else { kind }), wit(format!("the generated client returned {} for wire replies {}", client, Value::Array(exp_norm))));
    }
}

pub fn main(ctx: &Ctx) -> i32 {
    ctx.set_rule("grammar-directed definitions (all type constructors nested <=3, IDL/Rust keywords as field names, anonymous structs/enums, typedef references, 0-6 members; only constructs the generator is known to compile, see C09) x IDL-type-directed values (boundary ints, floats, empty/non-ASCII/escape-heavy strings, empty and nested collections, every optional set and unset, string sets) x call modes {call, more with 1-3 replies, oneway} x outcomes {reply, each declared error}, plus ill-typed/missing parameters; the driver crate's signatures are copied from the emitted trait; distinct = (definition, method, case); non-trivial = method has >=1 field in or out");
    ctx.assume("expected JSON is built from the definition alone; null-valued object members are treated as absent on both sides ('absent optionals omitted or null')");
    ctx.assume("definitions whose emitted module rustc rejects are C09's to report: they are dropped here (counted as dropped_uncompilable) and the crate is rebuilt");
    let n = ctx.tier.pick(24usize, 400usize);
    let per_crate = ctx.tier.pick(24usize, 25usize);
    let per_method = ctx.tier.pick(40usize, 200usize);
    let mut rng = Rng::new(ctx.seed ^ 0x808);
    let root = gen_root().join(format!("c08-{}-{}", ctx.seed, std::process::id()));
    let _ = std::fs::remove_dir_all(&root);
    std::fs::create_dir_all(&root).unwrap();
    let mut idx = 0;
    let mut done = 0;
    while done < n {
        let mut mods: Vec<(usize, GenIdl, String, Vec<(String, String, Vec<String>)>)> = Vec::new();
        while mods.len() < per_crate && done + mods.len() < n {
            let mut g = gen_for_generator(&mut rng, idx, 0, 1 + idx % 3);
            idx += 1;
            add_probe_members(&mut g, &mut rng);
            if g.risky.is_some() || !g.idl.members.iter().any(|m| m.kind == MKind::Method) {
                continue;
            }
            match emit(&g.text, true) {
                Emit::Ok(code) => match scan_trait(&code) {
                    Ok(sigs) => mods.push((idx, g, code, sigs)),
                    Err(e) => ctx.violation("c08:emitted-trait-not-found", json!({"engine": "c08", "definition": g.text, "message": e})),
                },
                _ => ctx.count("dropped_uncompilable", 1),
            }
        }
        done += mods.len();
        run_crate(ctx, &root, &mut rng, mods, per_method);
    }
    let _ = std::fs::remove_dir_all(&root);
    // the driver binary and its build artefacts carry this process's id: leave nothing behind
    let dbg = gen_root().join("target").join("debug");
    let mine = format!("drv{}", std::process::id());
    let _ = std::fs::remove_file(dbg.join(&mine));
    let _ = std::fs::remove_file(dbg.join(format!("{}.d", mine)));
    for sub in ["deps", "incremental", ".fingerprint", "build"] {
        if let Ok(rd) = std::fs::read_dir(dbg.join(sub)) {
            for e in rd.flatten() {
                if e.file_name().to_string_lossy().starts_with(&mine) {
                    let p = e.path();
                    let _ = if p.is_dir() { std::fs::remove_dir_all(&p) } else { std::fs::remove_file(&p) };
                }
            }
        }
    }
    ctx.finish(ctx.tier.pick(2_000, 50_000))
}

fn run_crate(ctx: &Ctx, root: &std::path::Path, rng: &mut Rng, mut mods: Vec<(usize, GenIdl, String, Vec<(String, String, Vec<String>)>)>, per_method: usize) {
    let dir = root.join("drv");
    for attempt in 0..4 {
        let mut files: Vec<(String, String)> = Vec::new();
        let mut main = String::from("#![allow(warnings)]\n#![allow(bindings_with_variant_name)]\n");
        let mut calls = String::new();
        let mut drivers = String::new();
        for (i, g, code, sigs) in &mods {
            files.push((format!("src/m{}.rs", i), code.clone()));
            main.push_str(&format!("mod m{};\n", i));
            match driver(*i, &g.idl, sigs) {
                Ok(d) => {
                    drivers.push_str(&d);
                    calls.push_str(&format!("    out.insert(\"m{i}\".to_string(), d{i}::drive(&cases[\"m{i}\"]));\n", i = i));
                }
                Err(e) => ctx.violation("c08:emitted-trait-does-not-match-definition", json!({"engine": "c08", "definition": g.text, "message": e})),
            }
        }
        main.push_str(RT);
        main.push_str(&drivers);
        main.push_str("fn main() {\n    let cases: serde_json::Value = serde_json::from_str(&std::fs::read_to_string(\"cases.json\").unwrap()).unwrap();\n    let mut out = serde_json::Map::new();\n");
        main.push_str(&calls);
        main.push_str("    std::fs::write(\"results.json\", serde_json::to_string(&serde_json::Value::Object(out)).unwrap()).unwrap();\n}\n");
        files.push(("src/main.rs".into(), main));
        write_crate(&dir, &format!("drv{}", std::process::id()), "", &files, None);
        let (ok, diags, tail) = cargo_json(&dir, &["build"]);
        if ok {
            break;
        }
        // drop modules whose emitted code (or driver) does not compile; C09 reports emitted-code errors
        let mut bad: Vec<usize> = Vec::new();
        for d in &diags {
            let f = d.file.rsplit('/').next().unwrap_or("");
            if let Some(num) = f.strip_prefix('m').and_then(|s| s.strip_suffix(".rs")).and_then(|s| s.parse::<usize>().ok()) {
                if !bad.contains(&num) {
                    bad.push(num);
                }
            }
        }
        if bad.is_empty() || attempt == 3 {
            // errors in the driver itself: find which driver module (d<i>) by scanning the rendered text
            let mut culprit = None;
            for d in &diags {
                for (i, _, _, _) in &mods {
                    if d.rendered.contains(&format!("d{}::", i)) || d.rendered.contains(&format!("m{} as g", i)) || d.rendered.contains(&format!("m{}::", i)) {
                        culprit = Some(*i);
                    }
                }
            }
            match culprit {
                Some(c) if attempt < 3 => {
                    let (_, g, _, _) = mods.iter().find(|m| m.0 == c).unwrap();
                    ctx.violation("c08:driver-does-not-compile-against-emitted-api", json!({"engine": "c08", "definition": g.text, "message": "the documented naming (Method_Args/_Reply, snake_case methods, reply_<error>) does not fit the emitted module", "first_error": diags.first().map(|d| d.rendered.clone())}));
                    mods.retain(|m| m.0 != c);
                    continue;
                }
                _ => {
                    ctx.inconclusive(json!({"harness": "driver crate does not build", "first_error": diags.first().map(|d| d.rendered.clone()), "tail": tail}));
                    return;
                }
            }
        }
        ctx.count("dropped_uncompilable", bad.len() as u64);
        mods.retain(|m| !bad.contains(&m.0));
    }
    // cases
    let mut cases = Map::new();
    for (i, g, _, _) in &mods {
        cases.insert(format!("m{}", i), Value::Array(make_cases(rng, &g.idl, per_method)));
    }
    std::fs::write(dir.join("cases.json"), serde_json::to_string(&Value::Object(cases.clone())).unwrap()).unwrap();
    let bin = gen_root().join("target").join("debug").join(format!("drv{}", std::process::id()));
    let run = Command::new(&bin).current_dir(&dir).output();
    match run {
        Ok(o) if o.status.success() => {}
        Ok(o) => {
            ctx.violation("c08:driver-crashed", json!({"engine": "c08", "status": format!("{:?}", o.status), "stderr": String::from_utf8_lossy(&o.stderr).chars().rev().take(1500).collect::<String>().chars().rev().collect::<String>()}));
            return;
        }
        Err(e) => {
            ctx.inconclusive(json!({"harness": format!("driver did not start: {}", e)}));
            return;
        }
    }
    let results: Value = serde_json::from_str(&std::fs::read_to_string(dir.join("results.json")).unwrap_or_default()).unwrap_or(Value::Null);
    for (i, g, _, _) in &mods {
        let key = format!("m{}", i);
        let cs = cases[&key].as_array().cloned().unwrap_or_default();
        let rs = results[&key].as_array().cloned().unwrap_or_default();
        ctx.count("interfaces_driven", 1);
        if rs.len() != cs.len() {
            ctx.inconclusive(json!({"harness": "result count differs from case count", "module": key}));
            continue;
        }
        for (c, r) in cs.iter().zip(rs.iter()) {
            judge_case(ctx, &g.idl, &g.text, c, r);
        }
        if ctx.want_sample() {
            ctx.sample(json!({"definition": g.text, "first_case": cs.first(), "first_result": rs.first()}));
        }
    }
}

pub fn replay(_ctx: &Ctx, w: &Value) {
    println!("C08 witness: definition + case + observation are in the witness file; the run is deterministic for a seed (bin/check C08 quick).\n{}", truncate(&w.to_string(), 3000));
}
