//! C03: routing by interface name (split at the last dot); the service interface tells the truth.
use crate::core::*;
use crate::drive::*;
use crate::model::*;
use crate::svc::*;
use serde_json::{json, Value};
use varlink::VarlinkService;

const NAME_POOL: &[&str] = &[
    "a.b", "a.b.c", "a.b.c.d", "a.bc", "a.b-c", "a.b1", "a1.b", "A.b", "a.B", "a.b.C", "org.example", "org.example.more", "org.example-x.y", "org.example.mor",
    "a.1", "a.21.c", "com.example.0example", "a.b.9", "a.0-0", "a.1b.c", "x.y", "x.y.z", "org.varlink", "org.varlink.servic", "org.varlink.service.x", "org.varlink.servicex", "com.example.a-b.c9", "io.b-b.c",
];

fn leak(s: String) -> &'static str {
    Box::leak(s.into_boxed_str())
}

/// what a service may be configured with as vendor / product / version / url
const INFO_POOL: &[&str] = &["V e n", "P\"rod", "1.2.3-β", "http://u/?a=b&c", "", " ", "0", "null", "ü\n\t\\", "x"];

struct Cfg {
    info: [&'static str; 4],
    names: Vec<&'static str>,
    with_gen: bool,
    with_fmt: bool,
    svc: VarlinkService,
    log: Log,
}

fn desc_of(name: &str) -> String {
    format!("# recorder {}\ninterface {}\n\nmethod Known() -> (by: string)\n", name, name)
}

fn make_cfg(rng: &mut Rng) -> Cfg {
    let n = rng.below(7);
    let mut names: Vec<&'static str> = Vec::new();
    while names.len() < n {
        let c = *rng.pick(NAME_POOL);
        if !names.contains(&c) {
            names.push(c);
        }
    }
    let with_gen = rng.chance(1, 3);
    let log = new_log();
    let mut ifs: Vec<Box<dyn varlink::Interface + Send + Sync>> = Vec::new();
    for &nm in &names {
        ifs.push(Box::new(Recorder { name: nm, desc: leak(desc_of(nm)), log: log.clone() }));
    }
    // the same name registered twice (two implementations under one name): still one routable
    // interface, listed once; which of the two instances serves is not specified
    if !names.is_empty() && rng.chance(1, 4) {
        let nm = *rng.pick(&names);
        let at = rng.below(ifs.len() + 1);
        ifs.insert(at, Box::new(Recorder { name: nm, desc: leak(desc_of(nm)), log: log.clone() }));
    }
    if with_gen {
        ifs.push(Box::new(gen::new(Box::new(GenImpl))));
    }
    let with_fmt = rng.chance(1, 3);
    if with_fmt {
        ifs.push(Box::new(fmt::new(Box::new(FmtImpl))));
    }
    // three configurations in four keep the fixed texts (replay reconstructs those), one draws
    // each member from the pool (the empty string included)
    let info: [&'static str; 4] = if rng.chance(1, 4) { [*rng.pick(INFO_POOL), *rng.pick(INFO_POOL), *rng.pick(INFO_POOL), *rng.pick(INFO_POOL)] } else { ["V e n", "P\"rod", "1.2.3-β", "http://u/?a=b&c"] };
    let svc = VarlinkService::new(info[0], info[1], info[2], info[3], ifs);
    Cfg { info, names, with_gen, with_fmt, svc, log }
}

fn method_strings(cfg: &Cfg, rng: &mut Rng) -> Vec<String> {
    let mut v: Vec<String> = vec![
        "org.varlink.service.GetInfo".into(),
        "org.varlink.service.GetInterfaceDescription".into(),
        "org.varlink.service.Nope".into(),
        "org.varlink.service.".into(),
        "org.varlink.service".into(),
        ".".into(),
        "..".into(),
        "".into(),
        "nodot".into(),
        // names nobody registered, with characters a hand-made reply would have to escape
        "org.exa\u{1}mple.X".into(),
        "a\u{7f}.b.X".into(),
        "a\u{200b}b.c.X".into(),
        "q\"uote.x.X".into(),
        "back\\slash.x.X".into(),
        "tab\there.x\n.X".into(),
        "\u{fc}.\u{f6}.\u{c4}".into(),
        "a.b\u{0}c.X".into(),
        "\u{1b}[31m.x.X".into(),
        "no\u{1}dot".into(),
        "\u{2028}.\u{feff}.X".into(),
        ".Known".into(),
        "Known.".into(),
        "a.".into(),
        "org.verif.gen.Add".into(),
        "org.verif.gen.Nope".into(),
        "org.verif.gen.".into(),
        "org.verif.fmt.Get".into(),
        "org.verif.fmt.Bad".into(),
        "org.verif.fmt".into(),
    ];
    let mut bases: Vec<String> = cfg.names.iter().map(|s| s.to_string()).collect();
    for _ in 0..3 {
        bases.push(rng.pick(NAME_POOL).to_string());
    }
    for n in &bases {
        for m in ["Known", "Other", "", "known", "Known.x", "x.Known"] {
            v.push(format!("{}.{}", n, m));
        }
        v.push(format!(".{}.Known", n));
        v.push(format!("{}..Known", n));
        v.push(format!("{}.Known.", n));
        v.push(n.clone());
        // every proper prefix / suffix of the name, with a method appended
        let cs: Vec<char> = n.chars().collect();
        for k in 1..cs.len() {
            let pre: String = cs[..k].iter().collect();
            let suf: String = cs[k..].iter().collect();
            v.push(format!("{}.Known", pre));
            v.push(format!("{}.Known", suf));
        }
    }
    v
}

#[derive(Debug)]
enum Want {
    /// exactly this recorder is called; reply as given
    Routed { name: String, reply: FrameSpec },
    /// no recorder is called; reply as given
    Lib(FrameSpec),
    GetInfo,
    /// statement silent: any error reply or close, no recorder
    DontCareErr,
    /// statement silent: anything goes as long as no recorder is called
    DontCare,
}

fn spec(cfg: &Cfg, method: &str, params: &Option<Value>) -> Want {
    let n = match method.rfind('.') {
        None => return Want::DontCareErr,
        Some(n) => n,
    };
    let iface = &method[..n];
    if iface == "org.varlink.service" {
        return match method {
            "org.varlink.service.GetInfo" => Want::GetInfo,
            "org.varlink.service.GetInterfaceDescription" => match params {
                None => Want::Lib(FrameSpec::ErrorNamed("org.varlink.service.InvalidParameter")),
                Some(p) => match p.get("interface") {
                    Some(Value::String(s)) => {
                        if s == "org.varlink.service" {
                            Want::Lib(FrameSpec::Exact(json!({"parameters": {"description": SERVICE_DESC}})))
                        } else if cfg.names.contains(&s.as_str()) {
                            Want::Lib(FrameSpec::Exact(json!({"parameters": {"description": desc_of(s)}})))
                        } else if cfg.with_gen && s == "org.verif.gen" {
                            Want::Lib(FrameSpec::Exact(json!({"parameters": {"description": include_str!("../idl/org.verif.gen.varlink")}})))
                        } else if cfg.with_fmt && s == "org.verif.fmt" {
                            // the definition file's bytes, whatever its line ends and blanks
                            Want::Lib(FrameSpec::Exact(json!({"parameters": {"description": FMT_TEXT}})))
                        } else {
                            Want::Lib(FrameSpec::ErrorNamed("org.varlink.service.InvalidParameter"))
                        }
                    }
                    // present but not a string, or absent inside an object: statement silent
                    _ => Want::DontCare,
                },
            },
            m => Want::Lib(FrameSpec::Exact(json!({"error": "org.varlink.service.MethodNotFound", "parameters": {"method": m}}))),
        };
    }
    if cfg.names.contains(&iface) {
        let reply = if method == format!("{}.Known", iface) {
            FrameSpec::Exact(json!({"parameters": {"by": iface}}))
        } else {
            FrameSpec::Exact(json!({"error": "org.varlink.service.MethodNotFound", "parameters": {"method": method}}))
        };
        return Want::Routed { name: iface.to_string(), reply };
    }
    if cfg.with_gen && iface == "org.verif.gen" {
        return match method {
            "org.verif.gen.Add" | "org.verif.gen.Nop" => Want::DontCare, // C01/C08 territory (parameter validation)
            m => Want::Lib(FrameSpec::Exact(json!({"error": "org.varlink.service.MethodNotFound", "parameters": {"method": m}}))),
        };
    }
    if cfg.with_fmt && iface == "org.verif.fmt" {
        return match method {
            "org.verif.fmt.Get" => Want::DontCare,
            m => Want::Lib(FrameSpec::Exact(json!({"error": "org.varlink.service.MethodNotFound", "parameters": {"method": m}}))),
        };
    }
    Want::Lib(FrameSpec::Exact(json!({"error": "org.varlink.service.InterfaceNotFound", "parameters": {"interface": iface}})))
}

fn param_values(rng: &mut Rng) -> Option<Value> {
    match rng.below(10) {
        0 => None,
        8 => Some(json!({"interface": "org.verif.gen"})),
        9 => Some(json!({"interface": "org.verif.fmt"})),
        1 => Some(json!({})),
        2 => Some(json!({"interface": "org.varlink.service"})),
        3 => Some(json!({"interface": *rng.pick(NAME_POOL)})),
        4 => Some(json!({"interface": 5, "x": [1, 2, {"y": null}]})),
        5 => Some(json!({"token": "t", "n": -1.5e3, "s": "\u{0}\"\\ü€😀", "nested": {"a": [true, false, null]}})),
        6 => Some(json!([1, 2, 3])),
        _ => Some(json!("just a string")),
    }
}

pub fn main(ctx: &Ctx) -> i32 {
    ctx.set_rule("services with 0-6 recording interfaces named adversarially (shared prefixes, dotted prefix of another, last element differs, hyphens/digits/upper case) +/- a generated interface; method strings = every registered name x {known, unknown, empty method}, every prefix/suffix of names, empty elements, leading/trailing dots, no dot, service-interface calls; parameters of every JSON type; all 4 flag combinations; distinct = (name-set, method string, flags, parameter class); non-trivial = >=1 registered interface or a service-interface call");
    ctx.assume("don't-care (counted as skipped_unspecified): method strings without a dot (only 'an error reply or close, no recorder called' is required); GetInterfaceDescription whose interface member is absent or not a string; parameter validation of the generated Add/Nop");
    let ncfg = ctx.tier.pick(1500usize, 150_000usize);
    let nw = workers();
    par(nw, |w| {
        let mut rng = Rng::lane(ctx.seed, 400 + w as u64);
        let mut ci = w;
        while ci < ncfg {
            let cfg = make_cfg(&mut rng);
            let methods = method_strings(&cfg, &mut rng);
            let mut registered: Vec<&str> = cfg.names.clone();
            if cfg.with_gen {
                registered.push("org.verif.gen");
            }
            if cfg.with_fmt {
                registered.push("org.verif.fmt");
            }
            for m in &methods {
                let flags = *rng.pick(ALL_FLAGS);
                let params = param_values(&mut rng);
                let mut req = serde_json::Map::new();
                req.insert("method".into(), json!(m));
                if let Some(p) = &params {
                    req.insert("parameters".into(), p.clone());
                }
                if flags.more {
                    req.insert("more".into(), json!(true));
                }
                if flags.oneway {
                    req.insert("oneway".into(), json!(true));
                }
                // the upgrade flag on calls whose method does not upgrade the connection: the
                // flag reaches the interface like the others and changes nothing else
                let upgrade_flag = rng.chance(1, 6);
                if upgrade_flag {
                    req.insert("upgrade".into(), json!(true));
                }
                let mut bytes = serde_json::to_vec(&Value::Object(req.clone())).unwrap();
                bytes.push(0);
                cfg.log.lock().unwrap().clear();
                let run = run_whole(&cfg.svc, &bytes, None);
                let calls: Vec<Ev> = cfg.log.lock().unwrap().iter().filter(|e| matches!(e, Ev::Call { .. })).cloned().collect();
                let want = spec(&cfg, m, &params);
                let nontrivial = !cfg.names.is_empty() || m.starts_with("org.varlink.service.");
                ctx.case(if nontrivial { Some(hash_of(&(&cfg.names, cfg.with_gen, cfg.with_fmt, m, flags, upgrade_flag, params.as_ref().map(|p| p.to_string())))) } else { None });
                ctx.count("recorder_calls_observed", calls.len() as u64);
                let wit = |msg: String| json!({"engine": "c03", "configured_info": cfg.info, "registered": cfg.names, "with_generated": cfg.with_gen, "with_generated_fmt": cfg.with_fmt, "request": Value::Object(req.clone()), "reply_bytes": show(&run.out), "closed": run.closed, "recorder_calls": format!("{:?}", calls), "message": msg});
                if let Some(p) = &run.panicked {
                    ctx.violation("c03:panic", wit(format!("panic {}", p)));
                    continue;
                }
                let frames = canon_frames(&run.out);
                let check_reply = |spec: &FrameSpec| -> Result<(), String> {
                    if flags.oneway {
                        return if frames.is_empty() { Ok(()) } else { Err("reply to a oneway call".into()) };
                    }
                    if frames.len() != 1 {
                        return Err(format!("{} reply frames", frames.len()));
                    }
                    frame_matches(&frames[0], spec, &registered)
                };
                match &want {
                    Want::Routed { name, reply } => {
                        if calls.len() != 1 {
                            ctx.violation("c03:routing:wrong-number-of-recorders", wit(format!("{} recorders called, expected exactly {}", calls.len(), name)));
                            continue;
                        }
                        if let Ev::Call { name: got, method, more, oneway, upgrade, params: gp } = &calls[0] {
                            if got != name {
                                ctx.violation("c03:routing:wrong-interface", wit(format!("reached {} instead of {}", got, name)));
                                continue;
                            }
                            if method != m || *more != flags.more || *oneway != flags.oneway || *upgrade != upgrade_flag || gp != &params {
                                ctx.violation("c03:routing:request-changed", wit(format!("recorder saw method={} more={} oneway={} params={:?}", method, more, oneway, gp)));
                                continue;
                            }
                        }
                        if let Err(e) = check_reply(reply) {
                            ctx.violation("c03:routing:wrong-reply", wit(e));
                        }
                    }
                    Want::Lib(spec) => {
                        if !calls.is_empty() {
                            ctx.violation("c03:routing:recorder-called-for-unregistered", wit("a recorder was called".into()));
                            continue;
                        }
                        if let Err(e) = check_reply(spec) {
                            let sig = match spec {
                                FrameSpec::Exact(v) if v.get("error").and_then(|x| x.as_str()) == Some("org.varlink.service.InterfaceNotFound") => "c03:interface-not-found-reply",
                                FrameSpec::Exact(v) if v.get("error").and_then(|x| x.as_str()) == Some("org.varlink.service.MethodNotFound") => "c03:method-not-found-reply",
                                FrameSpec::Exact(_) => "c03:description-reply",
                                _ => "c03:invalid-parameter-reply",
                            };
                            ctx.violation(sig, wit(e));
                        }
                    }
                    Want::GetInfo => {
                        if !calls.is_empty() {
                            ctx.violation("c03:routing:recorder-called-for-getinfo", wit("a recorder was called".into()));
                            continue;
                        }
                        if flags.oneway {
                            if !frames.is_empty() {
                                ctx.violation("c03:getinfo", wit("reply to oneway".into()));
                            }
                        } else if frames.len() != 1 {
                            ctx.violation("c03:getinfo", wit(format!("{} frames", frames.len())));
                        } else if let Err(e) = check_getinfo(&normalise(frames[0].clone()), cfg.info[0], cfg.info[1], cfg.info[2], cfg.info[3], &registered) {
                            ctx.violation("c03:getinfo", wit(e));
                        }
                    }
                    Want::DontCareErr | Want::DontCare => {
                        ctx.count("skipped_unspecified", 1);
                        let recorder_ok = calls.is_empty() || (cfg.with_gen && m.starts_with("org.verif.gen.")) || (cfg.with_fmt && m.starts_with("org.verif.fmt."));
                        if !recorder_ok {
                            ctx.violation("c03:routing:recorder-called-for-dotless-or-unspecified", wit("a recorder was called".into()));
                        } else if matches!(want, Want::DontCareErr) && !flags.oneway && run.closed.is_none() {
                            let ok = frames.len() == 1 && frames[0].get("error").map(|e| e.is_string()).unwrap_or(false);
                            if !ok {
                                ctx.violation("c03:dotless-not-an-error", wit("a method name without a dot must get an error reply (or a close)".into()));
                            }
                        }
                    }
                }
                // the same request with a second one behind it in the same stream: whatever the
                // first is, a following well-formed call is routed and answered as well (unless the
                // service closed the connection at the first)
                if run.closed.is_none() && run.panicked.is_none() {
                    let mut two = bytes.clone();
                    two.extend_from_slice(b"{\"method\":\"org.varlink.service.GetInfo\"}\0");
                    cfg.log.lock().unwrap().clear();
                    let run2 = run_whole(&cfg.svc, &two, None);
                    let f2 = canon_frames(&run2.out);
                    ctx.count("pipelined_follow_ups", 1);
                    let ok = run2.closed.is_none() && f2.len() == frames.len() + 1 && f2[..frames.len()] == frames[..] && check_getinfo(&normalise(f2[f2.len() - 1].clone()), cfg.info[0], cfg.info[1], cfg.info[2], cfg.info[3], &registered).is_ok();
                    if !ok {
                        ctx.violation("c03:routing:follow-up-call-not-answered", wit(format!("with a GetInfo call behind it in the same stream the replies are {} (closed: {:?}); alone the request drew {}", show(&run2.out), run2.closed, show(&run.out))));
                    }
                }
                if ctx.want_sample() || rng.chance(1, 4000) {
                    ctx.sample(json!({"registered": cfg.names, "request": Value::Object(req.clone()), "expected": format!("{:?}", want), "reply": show(&run.out)}));
                }
            }
            ci += nw;
        }
    });
    generated_descriptions(ctx);
    ctx.finish(ctx.tier.pick(20_000, 500_000))
}

/// Undo the escaping of a Rust string literal as printed by a token stream.
fn unescape_rust_literal(lit: &str) -> Option<String> {
    let mut out = String::new();
    let mut it = lit.chars();
    while let Some(c) = it.next() {
        if c != '\\' {
            out.push(c);
            continue;
        }
        match it.next()? {
            'n' => out.push('\n'),
            'r' => out.push('\r'),
            't' => out.push('\t'),
            '0' => out.push('\0'),
            '\\' => out.push('\\'),
            '"' => out.push('"'),
            '\'' => out.push('\''),
            'x' => {
                let h: String = [it.next()?, it.next()?].iter().collect();
                out.push(u8::from_str_radix(&h, 16).ok()? as char);
            }
            'u' => {
                if it.next()? != '{' {
                    return None;
                }
                let mut h = String::new();
                loop {
                    match it.next()? {
                        '}' => break,
                        '_' => {}
                        d => h.push(d),
                    }
                }
                out.push(char::from_u32(u32::from_str_radix(&h, 16).ok()?)?);
            }
            _ => return None,
        }
    }
    Some(out)
}

/// The string literal that the generated `get_description` returns, taken from the code the
/// generator emits (what a service built from it answers to GetInterfaceDescription).
fn emitted_description(code: &str) -> Option<String> {
    let at = code.find("fn get_description")?;
    let rest = &code[at..];
    let q = rest.find('"')?;
    let body = &rest[q + 1..];
    let mut end = None;
    let mut esc = false;
    for (i, c) in body.char_indices() {
        if esc {
            esc = false;
        } else if c == '\\' {
            esc = true;
        } else if c == '"' {
            end = Some(i);
            break;
        }
    }
    unescape_rust_literal(&body[..end?])
}

fn generated_description_case(ctx: &Ctx, text: &str, case_id: usize) {
    let code = match varlink_generator::compile(text.to_string()) {
        Ok(ts) => ts.to_string(),
        Err(_) => {
            ctx.count("generator_rejected_definitions", 1);
            return;
        }
    };
    let odd = text.contains('\r') || text.contains('\u{2028}') || text.contains('\u{2029}') || text.contains('\t') || text.contains('#');
    ctx.case(if odd { Some(hash_of(&("gen-desc", text))) } else { None });
    ctx.count("generated_descriptions_compared", 1);
    let wit = |m: String| json!({"engine": "c03-generated-description", "definition": text, "case": case_id, "message": m});
    match emitted_description(&code) {
        None => ctx.inconclusive(json!(format!("no get_description literal found in generated code (case {})", case_id))),
        Some(d) if d != text => {
            let pos = d.chars().zip(text.chars()).position(|(a, b)| a != b).unwrap_or(d.chars().count().min(text.chars().count()));
            ctx.violation("c03:generated-description-not-verbatim", wit(format!("description in generated code differs from the definition text at char {}: emitted {:?}", pos, d)));
        }
        Some(_) => {}
    }
}

/// Definitions rendered with every line-end form, tabs, blanks and comments, through the
/// generator of the tree under test: the description it embeds must be the text itself.
fn generated_descriptions(ctx: &Ctx) {
    use crate::idl::*;
    let n = ctx.tier.pick(3_000usize, 60_000usize);
    let nw = workers();
    par(nw, |w| {
        let mut rng = Rng::lane(ctx.seed, 4400 + w as u64);
        let mut i = w;
        while i < n {
            let cfg = GenCfg::parser();
            let idl = gen_idl(&mut rng, &cfg);
            let level = rng.below(3);
            let mut text = render(&idl, &mut rng, level);
            if rng.chance(1, 3) {
                // one line-end convention for the whole file, as a checkout would have it
                let eol = *rng.pick(&["\r\n", "\r", "\u{2028}"]);
                text = text.replace("\r\n", "\n").replace('\n', eol);
            }
            generated_description_case(ctx, &text, i);
            if ctx.want_sample() || rng.chance(1, 5000) {
                ctx.sample(json!({"generated_description_of": text}));
            }
            i += nw;
        }
    });
}

pub fn replay(ctx: &Ctx, w: &Value) {
    if w.get("engine").and_then(|v| v.as_str()) == Some("c03-generated-description") {
        let text = w.get("definition").and_then(|v| v.as_str()).unwrap_or("");
        generated_description_case(ctx, text, 0);
        return;
    }
    let names: Vec<&'static str> = w.get("registered").and_then(|v| v.as_array()).map(|a| a.iter().filter_map(|x| x.as_str().map(|s| leak(s.to_string()))).collect()).unwrap_or_default();
    let with_gen = w.get("with_generated").and_then(|v| v.as_bool()).unwrap_or(false);
    let log = new_log();
    let mut ifs: Vec<Box<dyn varlink::Interface + Send + Sync>> = Vec::new();
    for &nm in &names {
        ifs.push(Box::new(Recorder { name: nm, desc: leak(desc_of(nm)), log: log.clone() }));
    }
    if with_gen {
        ifs.push(Box::new(gen::new(Box::new(GenImpl))));
    }
    let with_fmt = w.get("with_generated_fmt").and_then(|v| v.as_bool()).unwrap_or(false);
    if with_fmt {
        ifs.push(Box::new(fmt::new(Box::new(FmtImpl))));
    }
    let info: Vec<&'static str> = w.get("configured_info").and_then(|v| v.as_array()).map(|a| a.iter().map(|x| leak(x.as_str().unwrap_or("").to_string())).collect()).unwrap_or_else(|| vec!["V e n", "P\"rod", "1.2.3-β", "http://u/?a=b&c"]);
    let svc = VarlinkService::new(info[0], info[1], info[2], info[3], ifs);
    let mut bytes = serde_json::to_vec(w.get("request").unwrap_or(&Value::Null)).unwrap();
    bytes.push(0);
    let run = run_whole(&svc, &bytes, None);
    println!("registered={:?} request={} -> reply {} closed={:?} recorder log={:?}", names, w.get("request").unwrap_or(&Value::Null), show(&run.out), run.closed, log.lock().unwrap());
    println!("(replay prints the execution; the verdict is re-derived by running the check)");
    let _ = ctx;
}
