//! C13: concurrent connections are served independently.
use crate::core::*;
use crate::model::*;
use crate::sock::*;
use crate::svc::*;
use serde_json::{json, Value};
use std::sync::atomic::{AtomicUsize, Ordering};
use std::sync::Mutex;
use std::time::{Duration, Instant};

#[derive(Clone, Copy, Debug, PartialEq, Eq, Hash)]
enum Bad {
    Idle,
    HalfMessage,
    CloseMidMessage,
    Garbage,
    SlowDrip,
    /// sends complete requests and hangs up without reading a single reply
    SendAndVanish,
    /// pipelines thousands of requests and never reads: its replies back up until the service
    /// blocks writing to it (whatever the service holds at that moment, it holds for good)
    Flood,
}
const BADS: &[Bad] = &[Bad::Idle, Bad::HalfMessage, Bad::CloseMidMessage, Bad::Garbage, Bad::SlowDrip, Bad::SendAndVanish, Bad::SendAndVanish, Bad::Flood];

/// A round in which a well-behaved client gets neither a reply nor a close for 10 s (three
/// further sentinels unanswered) while the service is up is repeated once with the same peers:
/// starved again = blocked by a peer; not again = a slow machine (inconclusive).
pub fn round(ctx: &Ctx, address: &str, tname: &str, nclients: usize, nbad: usize, seed: u64, round_no: usize) {
    let silent = round_once(ctx, address, tname, nclients, nbad, seed, round_no);
    if silent.is_empty() {
        return;
    }
    let again = round_once(ctx, address, tname, nclients, nbad, seed, round_no);
    if again.is_empty() {
        ctx.inconclusive(json!({"why": "clients went unanswered for 10 s once but not when the round was repeated", "first": silent[0]}));
    } else {
        ctx.violation(
            "c13:well-behaved-client-starved-beside-misbehaving-peers",
            json!({"engine": "c13", "transport": tname, "clients": nclients, "seed": seed, "round": round_no, "message": format!("{} client(s) in the round and {} in its repetition got neither a reply nor a close for 10 s although the service is up", silent.len(), again.len()), "first": silent[0], "repeated": again[0]}),
        );
    }
}

fn round_once(ctx: &Ctx, address: &str, tname: &str, nclients: usize, nbad: usize, seed: u64, round_no: usize) -> Vec<Value> {
    let mut silent: Vec<Value> = Vec::new();
    let mut rng = Rng::lane(seed, 1300 + round_no as u64);
    // misbehaving peers first (some), they stay open until the well-behaved clients are done
    let mut peers: Vec<(Bad, RawConn)> = Vec::new();
    let mut bads: Vec<Bad> = Vec::new();
    for _ in 0..nbad {
        let b = *rng.pick(BADS);
        bads.push(b);
        if let Ok(mut c) = RawConn::connect(address) {
            let msg = Req::new(Kind::Echo, Flags { more: false, oneway: false }, "bad").to_bytes();
            match b {
                Bad::Idle | Bad::SlowDrip => {}
                Bad::HalfMessage => {
                    let _ = c.write_all(&msg[..msg.len() / 2]);
                }
                Bad::CloseMidMessage => {
                    let _ = c.write_all(&msg[..msg.len() / 2]);
                    c.shutdown_both();
                }
                Bad::Garbage => {
                    let _ = c.write_all(b"\xff\xfe{{{{not json\0");
                }
                Bad::Flood => {
                    let mut b = Vec::new();
                    for k in 0..4000 {
                        let kind = *rng.pick(&[Kind::GetInfo, Kind::GetInfo, Kind::Echo, Kind::DescKnown]);
                        b.extend(Req::new(kind, Flags { more: false, oneway: false }, &format!("R{}FLOOD{}_{}", round_no, peers.len(), k)).to_bytes());
                    }
                    c.set_write_timeout(Duration::from_millis(300));
                    let _ = c.write_all(&b);
                }
                Bad::SendAndVanish => {
                    // replies to these can never be delivered; whatever the server buffered for
                    // them must not surface on anybody else's connection
                    let mut b = Vec::new();
                    for k in 0..rng.range(1, 4) {
                        b.extend(Req::new(*rng.pick(&[Kind::Echo, Kind::Stream2, Kind::GetInfo]), Flags { more: true, oneway: false }, &format!("R{}CVANISH{}_{}", round_no, peers.len(), k)).to_bytes());
                    }
                    let _ = c.write_all(&b);
                    c.shutdown_both();
                }
            }
            peers.push((b, c));
        }
    }
    let finished = AtomicUsize::new(0);
    let started_at = Instant::now();
    let spans: Mutex<Vec<(usize, u64, u64)>> = Mutex::new(Vec::new());
    let results: Mutex<Vec<(usize, Vec<String>, Result<usize, (String, String, String)>)>> = Mutex::new(Vec::new());
    let upgraders = rng.below(3);
    let up_results: Mutex<Vec<Result<usize, String>>> = Mutex::new(Vec::new());
    std::thread::scope(|s| {
        // connections that upgrade and then speak their own line protocol: per-connection state
        // (the upgraded interface) must not leak into the others
        for u in 0..upgraders {
            let up_results = &up_results;
            let mut urng = Rng::lane(seed, (round_no * 1000 + 900 + u) as u64);
            s.spawn(move || {
                let r = (|| -> Result<usize, String> {
                    let mut c = RawConn::connect(address).map_err(|e| e.to_string())?;
                    let tok = format!("R{}U{}", round_no, u);
                    c.write_all(&Req::new(Kind::Echo, Flags { more: false, oneway: false }, &tok).to_bytes()).map_err(|e| e.to_string())?;
                    match c.read_frame(Duration::from_secs(20)) {
                        ReadEv::Frame(f) if String::from_utf8_lossy(&f).contains(&tok) => {}
                        other => return Err(format!("upgrader: first Echo answered {:?}", other)),
                    }
                    let up = serde_json::to_vec(&json!({"method": "org.verif.t.Upgrade", "upgrade": true, "parameters": {"token": tok}})).unwrap();
                    c.write_all(&up).map_err(|e| e.to_string())?;
                    c.write_all(&[0]).map_err(|e| e.to_string())?;
                    match c.read_frame(Duration::from_secs(20)) {
                        ReadEv::Frame(f) if String::from_utf8_lossy(&f).contains(&tok) => {}
                        other => return Err(format!("upgrader: Upgrade answered {:?}", other)),
                    }
                    let n = urng.range(1, 6);
                    let mut want = Vec::new();
                    for k in 0..n {
                        let line = format!("{} line {} {}\n", tok, k, urng.next() & 0xfff);
                        c.write_all(line.as_bytes()).map_err(|e| e.to_string())?;
                        want.extend_from_slice(b"ack:");
                        want.extend_from_slice(line.as_bytes());
                        if urng.chance(1, 2) {
                            std::thread::sleep(Duration::from_millis(urng.below(4) as u64));
                        }
                    }
                    c.shutdown_write();
                    let (got, _eof) = c.read_to_eof(Duration::from_secs(20));
                    if got != want {
                        return Err(format!("upgraded session: got {} expected {}", show(&got), show(&want)));
                    }
                    Ok(n)
                })();
                up_results.lock().unwrap().push(r);
            });
        }
        for c in 0..nclients {
            let finished = &finished;
            let results = &results;
            let spans = &spans;
            let mut crng = Rng::lane(seed, (round_no * 1000 + c) as u64 + 77);
            s.spawn(move || {
                let len = crng.range(2, 16);
                let prefix = format!("R{}C{}_", round_no, c);
                let reqs = random_seq(&mut crng, &[Kind::Echo, Kind::GetInfo, Kind::Fail, Kind::Stream2, Kind::Stream0, Kind::GenAdd, Kind::GenAddOverflow, Kind::UnknownIface, Kind::UnknownMethodGen, Kind::NoDot, Kind::DescKnown], len, &prefix, 15);
                let depth = crng.range(1, len);
                let t0 = crate::fake::tick();
                let sr = crate::c01::run_socket(address, &reqs, depth, &mut crng, true, &format!("{}SENT", prefix));
                let t1 = crate::fake::tick();
                spans.lock().unwrap().push((c, t0, t1));
                let desc: Vec<String> = reqs.iter().map(|r| r.describe()).collect();
                let r = if let Some(w) = sr.inconclusive {
                    Err(("inconclusive".to_string(), w, show(&sr.out)))
                } else {
                    let mut all = reqs.clone();
                    all.push(Req::new(Kind::Echo, Flags { more: false, oneway: false }, &format!("{}SENT", prefix)));
                    all.extend(sr.extra_sentinels.iter().cloned());
                    match align(&all, &sr.out, sr.closed, STD_REGISTERED) {
                        Ok(rep) if sr.closed => Err(("c13:well-behaved-connection-closed".into(), format!("closed by the server before request {:?}", rep.first_unanswered), show(&sr.out))),
                        Ok(rep) => {
                            // any foreign token?
                            let txt = String::from_utf8_lossy(&sr.out).to_string();
                            let foreign = txt.match_indices(&format!("R{}C", round_no)).any(|(i, _)| !txt[i..].starts_with(&prefix));
                            if foreign {
                                Err(("c13:foreign-bytes".into(), "a reply carries another client's token".into(), show(&sr.out)))
                            } else {
                                Ok(rep.frames_total)
                            }
                        }
                        Err((sig, m)) => {
                            let txt = String::from_utf8_lossy(&sr.out).to_string();
                            let foreign = txt.match_indices(&format!("R{}C", round_no)).any(|(i, _)| !txt[i..].starts_with(&prefix));
                            Err((if foreign { "c13:foreign-bytes".into() } else { format!("c13:own-stream-wrong:{}", sig) }, m, show(&sr.out)))
                        }
                    }
                };
                finished.fetch_add(1, Ordering::SeqCst);
                results.lock().unwrap().push((c, desc, r));
            });
        }
        // slow-drip peers keep writing single bytes while the others work
        let msg = Req::new(Kind::Echo, Flags { more: false, oneway: false }, "drip").to_bytes();
        let mut k = 0;
        while finished.load(Ordering::SeqCst) < nclients && started_at.elapsed() < Duration::from_secs(40) {
            for (b, c) in peers.iter_mut() {
                if *b == Bad::SlowDrip && k < msg.len() - 1 {
                    let _ = c.write_all(&msg[k..k + 1]);
                }
            }
            k += 1;
            std::thread::sleep(Duration::from_millis(2));
        }
    });
    // the misbehaving peers were open during the whole time (they are dropped only now)
    let peers_open = peers.len();
    drop(peers);
    let spans = spans.into_inner().unwrap();
    let mut overlapped = false;
    for a in &spans {
        for b in &spans {
            if a.0 != b.0 && a.1 < b.2 && b.1 < a.2 {
                overlapped = true;
            }
        }
    }
    let mut order: Vec<(u64, usize)> = spans.iter().map(|s| (s.2, s.0)).collect();
    order.sort();
    let ohash = hash_of(&order.iter().map(|o| o.1).collect::<Vec<_>>());
    ctx.set_insert("distinct_completion_orders", hash_of(&(nclients, ohash)));
    ctx.case(if overlapped && nclients >= 2 { Some(hash_of(&(nclients, tname, &bads, ohash))) } else { None });
    ctx.count("client_connections", nclients as u64);
    ctx.count("misbehaving_peers", peers_open as u64);
    for r in up_results.into_inner().unwrap() {
        match r {
            Ok(n) => ctx.count("upgraded_lines_acknowledged", n as u64),
            Err(m) => ctx.violation("c13:upgraded-connection-disturbed", json!({"engine": "c13", "transport": tname, "clients": nclients, "message": m, "seed": seed, "round": round_no})),
        }
    }
    for (c, desc, r) in results.into_inner().unwrap() {
        match r {
            Ok(fr) => ctx.count("reply_frames_observed", fr as u64),
            Err((sig, m, out)) if sig == "inconclusive" && m.contains("no frame") => {
                silent.push(json!({"client": c, "why": m, "replies": out, "nclients": nclients, "misbehaving": format!("{:?}", bads)}));
            }
            Err((sig, m, out)) if sig == "inconclusive" => {
                ctx.inconclusive(json!({"client": c, "why": m, "replies": out, "nclients": nclients, "misbehaving": format!("{:?}", bads)}));
            }
            Err((sig, m, out)) => ctx.violation(&sig, json!({"engine": "c13", "transport": tname, "clients": nclients, "misbehaving": format!("{:?}", bads), "client": c, "requests": desc, "replies": out, "message": m, "seed": seed, "round": round_no})),
        }
    }
    silent
}

/// One pass of the quiet-period history on a fresh server: a burst of `burst` simultaneous
/// connections (the pool grows), all closed, `gap` of silence, then connections opened one after
/// the other and LEFT OPEN; each must be answered while the earlier ones sit idle.  Returns
/// Err(description) when the j-th connection is not answered within the watchdog, saying whether
/// closing the idle ones released it.
fn quiet_gap_pass(gap: Duration, burst: usize, close_order: usize, tag: &str) -> Result<Result<usize, String>, String> {
    let mut server = Server::start(standard_service(SvcCfg::default()), Transport::UnixPath, ServerCfg { initial: 1, max: 200, idle_timeout: 0, with_stop_flag: true })?;
    server.wait_ready()?;
    let echo = |c: &mut RawConn, tok: &str, wait: Duration| -> Result<bool, String> {
        c.write_all(&Req::new(Kind::Echo, Flags { more: false, oneway: false }, tok).to_bytes()).map_err(|e| format!("write: {}", e))?;
        match c.read_frame(wait) {
            ReadEv::Frame(f) if String::from_utf8_lossy(&f).contains(tok) => Ok(true),
            ReadEv::Frame(f) => Err(format!("foreign or wrong reply {}", show(&f))),
            ReadEv::Timeout => Ok(false),
            ReadEv::Eof => Err("closed by the service".into()),
            ReadEv::Error(e) => Err(e),
        }
    };
    // burst: all connections open at the same time, each answered, then all closed
    let mut conns = Vec::new();
    for i in 0..burst {
        let mut c = RawConn::connect(&server.address).map_err(|e| format!("connect: {}", e))?;
        if !echo(&mut c, &format!("{}b{}", tag, i), Duration::from_secs(20))? {
            return Err("burst connection not answered within 20 s (before the quiet period)".into());
        }
        conns.push(c);
    }
    // the order in which the burst's connections end decides which worker waits for work first
    // (0: as opened, 1: reverse, 2: rotated), so it is part of the history
    match close_order {
        0 => {}
        1 => conns.reverse(),
        _ => conns.rotate_left(burst / 2),
    }
    for mut c in conns {
        c.shutdown_both();
        drop(c);
        std::thread::sleep(Duration::from_millis(3));
    }
    std::thread::sleep(gap);
    let mut idle: Vec<RawConn> = Vec::new();
    let mut verdict = Ok(burst);
    for j in 0..burst {
        let mut c = RawConn::connect(&server.address).map_err(|e| format!("connect: {}", e))?;
        let tok = format!("{}g{}", tag, j);
        if !echo(&mut c, &tok, Duration::from_secs(8))? {
            // not answered while j idle connections are open: does closing them release it?
            let n_idle = idle.len();
            idle.clear();
            let released = matches!(c.read_frame(Duration::from_secs(8)), ReadEv::Frame(f) if String::from_utf8_lossy(&f).contains(&tok));
            verdict = Err(format!(
                "after a burst of {} connections and {:.1} s of silence, connection #{} (with {} idle connections open, limit 200) got no reply within 8 s; {}",
                burst,
                gap.as_secs_f64(),
                j + 1,
                n_idle,
                if released { "it was answered as soon as the idle connections were closed" } else { "it stayed unanswered for 8 more seconds after the idle connections were closed" }
            ));
            break;
        }
        idle.push(c);
    }
    drop(idle);
    let _ = server.stop();
    Ok(verdict)
}

/// One pass of the slow-client history: three clients on one server (transport and listen
/// configuration given) that pause between requests and in the middle of a request for longer
/// than any poll interval of the listen loop. Every client must get exactly its own three
/// replies and no close. Ok(Err(description)) = a client was cut off or starved.
fn slow_clients_pass(tr: Transport, idle_timeout: u64, with_stop_flag: bool, pauses: &[u64], tag: &str) -> Result<Result<usize, String>, String> {
    let mut server = Server::start(standard_service(SvcCfg::default()), tr, ServerCfg { initial: 1, max: 200, idle_timeout, with_stop_flag })?;
    server.wait_ready()?;
    let address = server.address.clone();
    let results: Vec<Result<usize, String>> = std::thread::scope(|sc| {
        let hs: Vec<_> = pauses
            .iter()
            .enumerate()
            .map(|(k, &pause)| {
                let address = address.clone();
                let tag = format!("{}k{}", tag, k);
                sc.spawn(move || -> Result<usize, String> {
                    let mut c = RawConn::connect(&address).map_err(|e| format!("connect: {}", e))?;
                    // silent before its first request as well
                    std::thread::sleep(Duration::from_millis(pause));
                    let mut got = 0;
                    for step in 0..3 {
                        let tok = format!("{}s{}", tag, step);
                        let b = Req::new(Kind::Echo, Flags { more: false, oneway: false }, &tok).to_bytes();
                        if step == 1 {
                            // pause inside the message
                            let cut = b.len() / 2;
                            c.write_all(&b[..cut]).map_err(|e| format!("client {} step {}: write failed: {}", k, step, e))?;
                            std::thread::sleep(Duration::from_millis(pause));
                            c.write_all(&b[cut..]).map_err(|e| format!("client {} step {} (pause of {} ms inside the message): write failed: {}", k, step, pause, e))?;
                        } else {
                            c.write_all(&b).map_err(|e| format!("client {} step {} (after a pause of {} ms): write failed: {}", k, step, pause, e))?;
                        }
                        match c.read_frame(Duration::from_secs(10)) {
                            ReadEv::Frame(f) if String::from_utf8_lossy(&f).contains(&tok) => got += 1,
                            ReadEv::Frame(f) => return Err(format!("client {} step {}: foreign or wrong reply {}", k, step, show(&f))),
                            other => return Err(format!("client {} (pauses of {} ms) step {}: no reply: {:?}", k, pause, step, other)),
                        }
                        std::thread::sleep(Duration::from_millis(pause));
                    }
                    Ok(got)
                })
            })
            .collect();
        hs.into_iter().map(|h| h.join().unwrap_or_else(|_| Err("client thread panicked".into()))).collect()
    });
    let _ = server.stop();
    let mut total = 0;
    for r in results {
        match r {
            Ok(n) => total += n,
            Err(m) => return Ok(Err(m)),
        }
    }
    Ok(Ok(total))
}

/// Slow and idle clients under every listen configuration (stop flag and idle timeout change the
/// loop's poll intervals) on unix and TCP; a cut-off is a violation when it repeats on a fresh
/// server.
fn slow_clients(ctx: &Ctx, tr: Transport, idle_timeout: u64, with_stop_flag: bool, tag: &str) {
    let pauses = [130u64, 450, 1300, 2600];
    let mut fails = Vec::new();
    for attempt in 0..2 {
        match slow_clients_pass(tr, idle_timeout, with_stop_flag, &pauses, &format!("{}a{}", tag, attempt)) {
            Err(e) => {
                ctx.inconclusive(json!({"slow_clients": e, "transport": format!("{:?}", tr)}));
                return;
            }
            Ok(Ok(n)) => {
                if attempt == 0 {
                    ctx.case(Some(hash_of(&("slow-clients", format!("{:?}", tr), idle_timeout, with_stop_flag))));
                    ctx.count("slow_client_histories", 1);
                    ctx.count("reply_frames_observed", n as u64);
                } else {
                    ctx.inconclusive(json!({"slow_clients": "a slow client was cut off once but not on a fresh server", "first": fails}));
                }
                return;
            }
            Ok(Err(m)) => fails.push(m),
        }
    }
    ctx.violation(
        "c13:slow-client-cut-off-or-starved",
        json!({"engine": "c13-slow-clients", "transport": format!("{:?}", tr), "idle_timeout": idle_timeout, "stop_flag_configured": with_stop_flag, "pauses_ms": pauses, "message": fails}),
    );
}

/// Quiet periods are where timers in a pool (idle reaping, keep-alive) act; the random rounds
/// never pause that long.  A shortfall is only a violation when it repeats on a second, fresh
/// server; once is inconclusive.
fn quiet_gap(ctx: &Ctx, gap: Duration, burst: usize, close_order: usize, tag: &str) {
    let mut fails = Vec::new();
    for attempt in 0..2 {
        match quiet_gap_pass(gap, burst, close_order, &format!("{}a{}", tag, attempt)) {
            Err(e) => {
                ctx.inconclusive(json!({"quiet_gap": e, "gap_s": gap.as_secs_f64()}));
                return;
            }
            Ok(Ok(n)) => {
                if attempt == 0 {
                    ctx.case(Some(hash_of(&("quiet-gap", gap.as_millis() as u64, burst, close_order))));
                    ctx.count("quiet_gap_histories", 1);
                    ctx.count("connections_served_beside_idle_ones_after_quiet_gap", n as u64);
                } else {
                    ctx.inconclusive(json!({"quiet_gap": "a connection went unanswered once but not on a fresh server", "first": fails}));
                }
                return;
            }
            Ok(Err(m)) => fails.push(m),
        }
    }
    ctx.violation("c13:idle-connections-block-another-after-quiet-period", json!({"engine": "c13-quiet-gap", "gap_ms": gap.as_millis() as u64, "burst": burst, "close_order": close_order, "message": fails}));
}

/// A peer that sends requests nested far beyond anything a parser should recurse into, while
/// well-behaved clients pipeline token-tagged requests on the same server.  The server runs in a
/// child process: the failure looked for is the whole service going down, which an in-process
/// server would turn into the death of this monitor.
fn hostile_depth(ctx: &Ctx) {
    let mut server = match crate::c06::ChildServer::start() {
        Ok(s) => s,
        Err(e) => return ctx.inconclusive(json!({ "child_server": e })),
    };
    for (di, depth) in [200usize, 5_000, 200_000, 2_000_000].iter().enumerate() {
        let address = server.address.clone();
        let results: Vec<Result<usize, String>> = std::thread::scope(|sc| {
            let hs: Vec<_> = (0..4)
                .map(|c| {
                    let address = address.clone();
                    sc.spawn(move || -> Result<usize, String> {
                        let mut conn = RawConn::connect(&address).map_err(|e| format!("connect: {}", e))?;
                        let mut n = 0;
                        for i in 0..40 {
                            let tok = format!("hd{}c{}i{}", di, c, i);
                            conn.write_all(&Req::new(Kind::Echo, Flags { more: false, oneway: false }, &tok).to_bytes()).map_err(|e| format!("write: {}", e))?;
                            match conn.read_frame(Duration::from_secs(20)) {
                                ReadEv::Frame(f) if String::from_utf8_lossy(&f).contains(&tok) => n += 1,
                                other => return Err(format!("request {} of client {}: {:?}", i, c, other)),
                            }
                            std::thread::sleep(Duration::from_millis(2));
                        }
                        Ok(n)
                    })
                })
                .collect();
            // the hostile peer, in the middle of their traffic
            std::thread::sleep(Duration::from_millis(20));
            if let Ok(mut bad) = RawConn::connect(&address) {
                for open in ["[", "{\"a\":"] {
                    let msg = format!("{{\"method\":\"org.verif.t.Echo\",\"parameters\":{{\"token\":{}", open.repeat(*depth));
                    let _ = bad.write_all(msg.as_bytes());
                    let _ = bad.write_all(&[0]);
                }
                bad.shutdown_write();
                let _ = bad.read_to_eof(Duration::from_secs(20));
            }
            hs.into_iter().map(|h| h.join().unwrap_or_else(|_| Err("client thread panicked".into()))).collect()
        });
        ctx.case(Some(hash_of(&("hostile-depth", depth))));
        ctx.count("hostile_depth_rounds", 1);
        let wit = |m: String| json!({"engine": "c13-hostile-depth", "depth": depth, "message": m});
        if let Err(e) = server.alive() {
            ctx.violation("c13:hostile-peer-takes-the-service-down", wit(format!("after a request nested {} deep on another connection: {}; clients: {:?}", depth, e, results)));
            return;
        }
        for r in &results {
            match r {
                Ok(n) => ctx.count("reply_frames_observed", *n as u64),
                Err(e) => {
                    ctx.violation("c13:well-behaved-client-disturbed-by-hostile-peer", wit(e.clone()));
                    return;
                }
            }
        }
    }
}

pub fn main(ctx: &Ctx) -> i32 {
    hostile_depth(ctx);
    let gaps: Vec<u64> = ctx.tier.pick(vec![1100, 2600, 5500], vec![1100, 2600, 5500, 10_500, 31_000, 61_000]);
    std::thread::scope(|sc| {
        for (i, g) in gaps.iter().enumerate() {
            let g = *g;
            for order in 0..3usize {
                sc.spawn(move || quiet_gap(ctx, Duration::from_millis(g), 4, order, &format!("q{}o{}", i, order)));
            }
        }
        // slow clients: transports x listen configurations (the configurations decide the poll
        // intervals of the listen loop)
        for (ti, tr) in [Transport::UnixPath, Transport::Tcp, Transport::UnixAbstract].into_iter().enumerate() {
            for (ci, (idle, flag)) in [(0u64, true), (1, false), (3, true)].into_iter().enumerate() {
                sc.spawn(move || slow_clients(ctx, tr, idle, flag, &format!("sl{}c{}", ti, ci)));
            }
        }
        main_rounds(ctx);
    });
    ctx.finish(ctx.tier.pick(20, 1000))
}

fn main_rounds(ctx: &Ctx) {
    ctx.set_rule("2-64 simultaneous clients on unix and TCP against one listen() server (max_worker_threads 200), each pipelining a random token-tagged sequence at a random depth with random segmentation/delays, beside 0-8 misbehaving peers (idle, half a message, close mid-message, garbage, one byte every 2 ms, thousands of pipelined requests never read) that stay open until every well-behaved client is done; plus a hostile peer sending requests nested 200..2*10^6 deep beside 4 pipelining clients (server in a child process); plus quiet-period histories (burst of 4 simultaneous connections, closed in opening/reverse/rotated order, 1.1/2.6/5.5 s of silence (thorough: up to 61 s), then 4 connections opened one by one and left open, each of which must be answered beside the idle ones); plus slow clients (pauses of 0.13-2.6 s before, between and inside requests) on unix, abstract and TCP under three listen configurations (stop flag; idle timeout 1 s; both), each of which must get exactly its own replies; distinct = (client count, transport, misbehaviour mix, observed completion order); non-trivial = >=2 clients overlapped in logical time");
    ctx.assume("tokens are globally unique (round, client, index), so a foreign byte is recognisable; OS schedules are sampled, not controlled");
    let rounds = ctx.tier.pick(120usize, 6000usize);
    for (ti, &tr) in [Transport::UnixPath, Transport::Tcp].iter().enumerate() {
        // the server is a child process (`vh serve`): a fault that takes the whole service down
        // (abort, stack overflow, a descriptor closed twice) must be a verdict, not the death of
        // this monitor
        let addr = match tr {
            Transport::Tcp => Some(format!("tcp:127.0.0.1:{}", std::net::TcpListener::bind("127.0.0.1:0").and_then(|l| l.local_addr()).map(|a| a.port()).unwrap_or(24791))),
            _ => None,
        };
        if std::env::var("VH_INPROCESS_SERVER").is_ok() {
            // sanitizer overlay: the race detector must see the server's threads
            let mut server = match Server::start(standard_service(SvcCfg { up: UpMode::Line, ..Default::default() }), tr, ServerCfg { initial: 1, max: 200, idle_timeout: 0, with_stop_flag: true }) {
                Ok(s) => s,
                Err(e) => {
                    ctx.inconclusive(json!({ "server_start": e }));
                    continue;
                }
            };
            if server.wait_ready().is_err() {
                ctx.inconclusive(json!({"server_ready": "no"}));
                continue;
            }
            let mut rng = Rng::lane(ctx.seed, 1200 + ti as u64);
            for r in 0..rounds / 2 {
                if ctx.violations() >= 3 {
                    break;
                }
                let n = *rng.pick(&[2usize, 2, 3, 4, 6, 8, 12, 16, 24, 32, 48, 64]);
                let nbad = rng.below(9);
                round(ctx, &server.address, &format!("{:?}", tr), n, nbad, ctx.seed, ti * 100_000 + r);
            }
            if let Err(e) = server.stop() {
                ctx.violation("c13:listen-returned-error", json!({"engine": "c13", "error": e}));
            }
            continue;
        }
        let mut server = match crate::c06::ChildServer::start_with(addr, true) {
            Ok(s) => s,
            Err(e) => {
                ctx.inconclusive(json!({ "server_start": e }));
                continue;
            }
        };
        let mut rng = Rng::lane(ctx.seed, 1200 + ti as u64);
        for r in 0..rounds / 2 {
            if ctx.violations() >= 3 {
                // enough witnesses; do not sit through further timeouts on a broken tree
                break;
            }
            if let Err(e) = server.alive() {
                ctx.violation("c13:service-process-died", json!({"engine": "c13", "transport": format!("{:?}", tr), "round": r, "message": format!("the service process is gone after round {}: {}", r, e)}));
                break;
            }
            let n = *rng.pick(&[2usize, 2, 3, 4, 6, 8, 12, 16, 24, 32, 48, 64]);
            let nbad = rng.below(9);
            round(ctx, &server.address, &format!("{:?}", tr), n, nbad, ctx.seed, ti * 100_000 + r);
            if r == 0 {
                ctx.sample(json!({"transport": format!("{:?}", tr), "clients": n, "misbehaving_peers": nbad, "each_client": "random sequence of 2-16 requests, random pipelining depth and segmentation, sentinel-terminated"}));
            }
        }
        if let Err(e) = server.alive() {
            ctx.violation("c13:service-process-died", json!({"engine": "c13", "transport": format!("{:?}", tr), "message": format!("the service process is gone at the end of the rounds: {}", e)}));
        }
    }
}

pub fn replay(ctx: &Ctx, w: &Value) {
    if w.get("engine").and_then(|v| v.as_str()) == Some("c13-quiet-gap") {
        let g = w.get("gap_ms").and_then(|v| v.as_u64()).unwrap_or(2600);
        quiet_gap(ctx, Duration::from_millis(g), w.get("burst").and_then(|v| v.as_u64()).unwrap_or(4) as usize, w.get("close_order").and_then(|v| v.as_u64()).unwrap_or(1) as usize, "rp");
        return;
    }
    if w.get("engine").and_then(|v| v.as_str()) == Some("c13-slow-clients") {
        let tr = match w.get("transport").and_then(|v| v.as_str()) {
            Some("Tcp") => Transport::Tcp,
            Some("UnixAbstract") => Transport::UnixAbstract,
            _ => Transport::UnixPath,
        };
        slow_clients(ctx, tr, w.get("idle_timeout").and_then(|v| v.as_u64()).unwrap_or(0), w.get("stop_flag_configured").and_then(|v| v.as_bool()).unwrap_or(true), "rp");
        return;
    }
    let mut server = Server::start(standard_service(SvcCfg { up: UpMode::Line, ..Default::default() }), Transport::UnixPath, ServerCfg { initial: 1, max: 200, idle_timeout: 0, with_stop_flag: true }).expect("server");
    server.wait_ready().expect("ready");
    let g = |k: &str| w.get(k).and_then(|v| v.as_u64()).unwrap_or(1);
    for i in 0..10 {
        round(ctx, &server.address, "UnixPath", g("clients") as usize, 4, g("seed"), g("round") as usize + i);
    }
    let _ = server.stop();
}
