//! C14: the worker pool respects its bound and never strands an accepted connection.
use crate::core::*;
use serde_json::Value;

pub fn main(ctx: &Ctx) -> i32 {
    ctx.set_rule("uncontrolled: random histories of submit/finish on the real pool under OS scheduling, job ends raced against submissions with 0-100 us gaps, in-service count compared with min(outstanding, max) at quiet points (4 lanes, 5 s quick / 180 s thorough); hook-free: listen() with (initial,max) in a 10-entry matrix, max..max+2 clients blocked inside a gated method, burst and one-by-one arrival, unix+TCP; distinct = (initial, max, clients, burst, transport); non-trivial = always (>=1 connection blocked in service)");
    crate::c14pool::run_controlled(ctx);
    crate::c14stress::run(ctx);
    crate::c14sock::run(ctx);
    ctx.finish(ctx.tier.pick(20, 400))
}

pub fn replay(ctx: &Ctx, w: &Value) {
    if w.get("engine").and_then(|v| v.as_str()) == Some("c14-pool") {
        return crate::c14pool::replay(ctx, w);
    }
    if w.get("engine").and_then(|v| v.as_str()) == Some("c14-stress") {
        // a race is replayed by racing again: the same lanes and seed, same time budget
        return crate::c14stress::run(ctx);
    }
    if w.get("engine").and_then(|v| v.as_str()) == Some("c14-quiet") {
        let g = |k: &str| w.get(k).and_then(|v| v.as_u64()).unwrap_or(1);
        return crate::c14sock::quiet_round(ctx, g("initial_worker_threads") as usize, g("max_worker_threads") as usize, std::time::Duration::from_millis(g("gap_ms")), w.get("reverse").and_then(|v| v.as_bool()).unwrap_or(false), "rp");
    }
    let g = |k: &str| w.get(k).and_then(|v| v.as_u64()).unwrap_or(1) as usize;
    let tr = if w.get("transport").and_then(|v| v.as_str()) == Some("Tcp") { crate::sock::Transport::Tcp } else { crate::sock::Transport::UnixPath };
    for _ in 0..5 {
        crate::c14sock::round(ctx, g("initial_worker_threads"), g("max_worker_threads"), g("clients"), w.get("burst").and_then(|v| v.as_bool()).unwrap_or(true), tr, g("round"));
    }
}
