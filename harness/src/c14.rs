//! C14: the worker pool respects its bound and never strands an accepted connection.
use crate::core::*;
use serde_json::Value;

pub fn main(ctx: &Ctx) -> i32 {
    ctx.set_rule("hook-free: listen() with (initial,max) in a 10-entry matrix, max..max+2 clients blocked inside a gated method, burst and one-by-one arrival, unix+TCP; distinct = (initial, max, clients, burst, transport); non-trivial = always (>=1 connection blocked in service)");
    crate::c14pool::run_controlled(ctx);
    crate::c14sock::run(ctx);
    ctx.finish(ctx.tier.pick(20, 400))
}

pub fn replay(ctx: &Ctx, w: &Value) {
    if w.get("engine").and_then(|v| v.as_str()) == Some("c14-pool") {
        return crate::c14pool::replay(ctx, w);
    }
    let g = |k: &str| w.get(k).and_then(|v| v.as_u64()).unwrap_or(1) as usize;
    let tr = if w.get("transport").and_then(|v| v.as_str()) == Some("Tcp") { crate::sock::Transport::Tcp } else { crate::sock::Transport::UnixPath };
    for _ in 0..5 {
        crate::c14sock::round(ctx, g("initial_worker_threads"), g("max_worker_threads"), g("clients"), w.get("burst").and_then(|v| v.as_bool()).unwrap_or(true), tr, g("round"));
    }
}
