//! S8 controlled scheduler for the real worker pool (needs cfg varlink_rust_verif).
//! Every pool thread and the acceptor park at each probe; a central scheduler grants one step
//! at a time, so schedules at probe granularity can be enumerated (DFS with state pruning) or
//! sampled (random walk) on the unmodified synchronisation code.
use crate::core::*;
use serde_json::{json, Value};
use std::collections::{HashMap, HashSet};
use std::sync::{Arc, Condvar, Mutex};
use std::thread::ThreadId;
use std::time::{Duration, Instant};
use varlink::verif::{self, Site};

#[derive(Clone, Copy, Debug, PartialEq, Eq, Hash, PartialOrd, Ord)]
pub enum At {
    /// not yet parked since its last grant
    Running,
    /// acceptor between execute() calls (next job index to submit)
    AccIdle(usize),
    AccDone,
    Probe(SiteK, usize, usize),
    /// inside job j, waiting for its latch
    InJob(usize),
    Exited,
}

/// `Site` mirrored so that it can be ordered/hashed together with our pseudo-sites
#[derive(Clone, Copy, Debug, PartialEq, Eq, Hash, PartialOrd, Ord)]
pub enum SiteK {
    Enq,
    Enqd,
    Spawned,
    Grown,
    Wait,
    Deq,
    JobDone,
    BusyDec,
    DropBegin,
    DropEnd,
}
fn sk(s: Site) -> SiteK {
    match s {
        Site::Enq => SiteK::Enq,
        Site::Enqd => SiteK::Enqd,
        Site::Spawned => SiteK::Spawned,
        Site::Grown => SiteK::Grown,
        Site::Wait => SiteK::Wait,
        Site::Deq => SiteK::Deq,
        Site::JobDone => SiteK::JobDone,
        Site::BusyDec => SiteK::BusyDec,
        Site::DropBegin => SiteK::DropBegin,
        Site::DropEnd => SiteK::DropEnd,
    }
}

struct T {
    at: At,
    granted: bool,
    is_acceptor: bool,
}

struct St {
    free: bool,
    threads: Vec<T>,
    ids: HashMap<ThreadId, usize>,
    expected: usize,
    queue_jobs: usize,
    queue_term: usize,
    released: Vec<bool>,
    started: Vec<bool>,
    finished: Vec<bool>,
    busy_seen: usize,
    workers_seen: usize,
    max_running: usize,
}

pub struct Sched {
    m: Mutex<St>,
    cv: Condvar,
}

impl Sched {
    fn new(njobs: usize, expected: usize) -> Arc<Sched> {
        Arc::new(Sched {
            m: Mutex::new(St {
                free: false,
                threads: Vec::new(),
                ids: HashMap::new(),
                expected,
                queue_jobs: 0,
                queue_term: 0,
                released: vec![false; njobs],
                started: vec![false; njobs],
                finished: vec![false; njobs],
                busy_seen: 0,
                workers_seen: 0,
                max_running: 0,
            }),
            cv: Condvar::new(),
        })
    }

    /// Park the calling thread at `at` until granted (or free mode).
    fn park(&self, at: At, is_acceptor: bool) {
        let tid = std::thread::current().id();
        let mut st = self.m.lock().unwrap();
        if st.free {
            return;
        }
        let idx = match st.ids.get(&tid) {
            Some(&i) => i,
            None => {
                let i = st.threads.len();
                st.threads.push(T { at: At::Running, granted: false, is_acceptor });
                st.ids.insert(tid, i);
                i
            }
        };
        // model updates for the transition that just completed
        match at {
            At::Probe(SiteK::Enqd, a, b) => {
                st.queue_jobs += 1;
                st.busy_seen = a;
                st.workers_seen = b;
            }
            At::Probe(SiteK::Spawned, _, b) => {
                st.expected += 1;
                st.workers_seen = b;
            }
            At::Probe(SiteK::Deq, term, _) => {
                if term == 1 {
                    st.queue_term = st.queue_term.saturating_sub(1);
                } else {
                    st.queue_jobs = st.queue_jobs.saturating_sub(1);
                }
            }
            At::InJob(j) => {
                st.started[j] = true;
                let running = st.threads.iter().filter(|t| matches!(t.at, At::InJob(_))).count() + 1;
                if running > st.max_running {
                    st.max_running = running;
                }
            }
            _ => {}
        }
        st.threads[idx].at = at;
        st.threads[idx].granted = false;
        self.cv.notify_all();
        while !st.free && !st.threads[idx].granted {
            st = self.cv.wait(st).unwrap();
        }
        if !st.free {
            if let At::InJob(j) = at {
                st.finished[j] = true;
            }
            st.threads[idx].at = if matches!(at, At::Probe(SiteK::Deq, 1, _)) { At::Exited } else { At::Running };
            st.threads[idx].granted = false;
        }
    }

    fn set_free(&self) {
        let mut st = self.m.lock().unwrap();
        st.free = true;
        self.cv.notify_all();
    }
}

#[derive(Clone, Debug, PartialEq, Eq, Hash, PartialOrd, Ord)]
pub enum Choice {
    /// grant thread (by index); the At it is parked at is included for the record
    Step(usize, At),
    Release(usize),
}

#[derive(Clone, Copy, Debug, PartialEq)]
pub struct PoolCfg {
    pub initial: usize,
    pub max: usize,
    pub jobs: usize,
}

pub struct ExecResult {
    pub schedule: Vec<Choice>,
    pub violation: Option<(String, String)>,
    pub inconclusive: Option<String>,
    pub pruned: bool,
    pub steps: usize,
    pub branching_seen: bool,
    pub states: Vec<u64>,
    /// threads of this execution were left behind: the process-wide hook state is no longer clean
    pub hung: bool,
}

pub trait Strategy {
    /// pick an index into `choices` at depth `d`
    fn choose(&mut self, d: usize, choices: &[Choice]) -> usize;
    /// called with the abstract state reached after step d; return true to prune here
    fn prune(&mut self, d: usize, state: u64) -> bool;
}

fn abstract_state(st: &St, next_job: usize) -> (u64, Vec<(At, bool)>) {
    let mut workers: Vec<(At, bool)> = st
        .threads
        .iter()
        .filter(|t| !t.is_acceptor)
        .map(|t| {
            let rel = if let At::InJob(j) = t.at { st.released[j] } else { false };
            // job identity does not matter for the pool; keep only "in a job, released or not"
            let at = if let At::InJob(_) = t.at { At::InJob(0) } else { t.at };
            (at, rel)
        })
        .collect();
    workers.sort();
    let acc: Vec<At> = st.threads.iter().filter(|t| t.is_acceptor).map(|t| t.at).collect();
    let h = hash_of(&(acc, &workers, st.queue_jobs, st.queue_term, st.busy_seen, st.workers_seen, next_job));
    (h, workers)
}

/// Run one controlled execution of the real pool.
pub fn execute(cfg: PoolCfg, strat: &mut dyn Strategy, max_steps: usize) -> ExecResult {
    // expected thread count is set by the acceptor once Pool::new returned (1 + pool.workers())
    let sched = Sched::new(cfg.jobs, usize::MAX);
    let s2 = sched.clone();
    verif::install(Some(Arc::new(move |site, a, b| {
        s2.park(At::Probe(sk(site), a, b), false);
    })));
    let s3 = sched.clone();
    let acceptor = std::thread::Builder::new()
        .name("acceptor".into())
        .spawn(move || {
            // register as acceptor first
            {
                let tid = std::thread::current().id();
                let mut st = s3.m.lock().unwrap();
                let i = st.threads.len();
                st.threads.push(T { at: At::Running, granted: false, is_acceptor: true });
                st.ids.insert(tid, i);
            }
            let mut pool = verif::Pool::new(cfg.initial, cfg.max);
            {
                let mut st = s3.m.lock().unwrap();
                st.expected = 1 + pool.workers();
                st.workers_seen = pool.workers();
            }
            for j in 0..cfg.jobs {
                s3.park(At::AccIdle(j), true);
                let s4 = s3.clone();
                pool.execute(move || {
                    s4.park(At::InJob(j), false);
                });
            }
            s3.park(At::AccDone, true);
            drop(pool);
        })
        .unwrap();

    let mut res = ExecResult { schedule: Vec::new(), violation: None, inconclusive: None, pruned: false, steps: 0, branching_seen: false, states: Vec::new(), hung: false };
    let mut d = 0usize;
    loop {
        // wait until every expected thread is parked (or exited)
        let deadline = Instant::now() + Duration::from_secs(10);
        let mut st = sched.m.lock().unwrap();
        loop {
            if st.threads.len() >= st.expected && st.threads.iter().all(|t| !matches!(t.at, At::Running)) {
                break;
            }
            let now = Instant::now();
            if now >= deadline {
                // A granted thread neither parked nor exited. If job bodies are running, let them
                // finish: when the stuck thread then moves on, it was waiting for another
                // connection to finish (stranded by something the probes do not show).
                let running_jobs: Vec<usize> = st.threads.iter().filter_map(|t| if let At::InJob(j) = t.at { Some(j) } else { None }).collect();
                let stuck = st.threads.iter().filter(|t| matches!(t.at, At::Running)).count();
                if stuck > 0 && !running_jobs.is_empty() && st.threads.len() >= st.expected {
                    for j in &running_jobs {
                        st.released[*j] = true;
                    }
                    for t in st.threads.iter_mut() {
                        if matches!(t.at, At::InJob(_)) {
                            t.granted = true;
                        }
                    }
                    sched.cv.notify_all();
                    let d2 = Instant::now() + Duration::from_secs(5);
                    let mut moved = false;
                    while Instant::now() < d2 {
                        let (g, _) = sched.cv.wait_timeout(st, Duration::from_millis(50)).unwrap();
                        st = g;
                        if st.threads.iter().filter(|t| matches!(t.at, At::Running)).count() < stuck + running_jobs.len() && st.threads.iter().any(|t| matches!(t.at, At::Probe(SiteK::Deq, 0, _))) {
                            moved = true;
                            break;
                        }
                    }
                    if moved {
                        res.violation = Some(("c14:stranded-behind-running-job".into(), format!("a worker that was given a queued job did not start it for 10 s while {} job(s) were running with max={}; it started once they finished", running_jobs.len(), cfg.max)));
                    } else {
                        res.inconclusive = Some("threads did not settle within 10 s (also not after letting running jobs finish)".into());
                    }
                    break;
                }
                res.inconclusive = Some(format!("threads did not settle within 10 s: {} registered, {} expected", st.threads.len(), st.expected));
                break;
            }
            let (g, _) = sched.cv.wait_timeout(st, Duration::from_millis(50).min(deadline - now)).unwrap();
            st = g;
        }
        if res.inconclusive.is_some() || res.violation.is_some() {
            break;
        }
        let next_job = st.threads.iter().find_map(|t| if let At::AccIdle(j) = t.at { Some(j) } else { None }).unwrap_or(cfg.jobs);
        let running: Vec<usize> = st.threads.iter().filter_map(|t| if let At::InJob(j) = t.at { Some(j) } else { None }).collect();
        let nworkers = st.threads.iter().filter(|t| !t.is_acceptor && t.at != At::Exited).count();
        // ---- oracle (a): bound
        if running.len() > cfg.max {
            res.violation = Some((
                format!("c14:bound-exceeded:{}", if cfg.initial > cfg.max { "initial>max" } else { "initial<=max" }),
                format!("{} job bodies running at once with max={} ({} worker threads exist)", running.len(), cfg.max, nworkers),
            ));
            break;
        }
        // enabled choices
        let mut choices: Vec<Choice> = Vec::new();
        let mut seen_classes: HashSet<(At, bool)> = HashSet::new();
        let mut worker_enabled = false;
        for (i, t) in st.threads.iter().enumerate() {
            let en = match t.at {
                At::Running | At::Exited | At::AccDone => false,
                At::AccIdle(_) => true,
                At::Probe(SiteK::Wait, _, _) => st.queue_jobs + st.queue_term > 0,
                At::Probe(_, _, _) => true,
                At::InJob(j) => st.released[j],
            };
            if en {
                if !t.is_acceptor {
                    worker_enabled = true;
                    // symmetric workers: one representative per identical local state
                    let key = (if let At::InJob(_) = t.at { At::InJob(0) } else { t.at }, false);
                    if !seen_classes.insert(key) {
                        continue;
                    }
                }
                choices.push(Choice::Step(i, t.at));
            }
        }
        let acc_between = st.threads.iter().any(|t| t.is_acceptor && matches!(t.at, At::AccIdle(_) | At::AccDone));
        // ---- oracle (b): stranded at a pool-quiescent state
        if acc_between && !worker_enabled && st.queue_jobs > 0 && running.len() < cfg.max {
            res.violation = Some((
                "c14:stranded".into(),
                format!(
                    "quiescent: {} job(s) queued, {} running, max={}, {} worker threads, none can take a step unless a job finishes or execute() is called again",
                    st.queue_jobs,
                    running.len(),
                    cfg.max,
                    nworkers
                ),
            ));
            break;
        }
        // releases: one representative (jobs are symmetric)
        if let Some(&j) = running.iter().find(|&&j| !st.released[j]) {
            choices.push(Choice::Release(j));
        }
        if choices.is_empty() || d >= max_steps {
            break;
        }
        if choices.len() > 1 {
            res.branching_seen = true;
        }
        let k = strat.choose(d, &choices).min(choices.len() - 1);
        let c = choices[k].clone();
        res.schedule.push(c.clone());
        match c {
            Choice::Release(j) => {
                st.released[j] = true;
            }
            Choice::Step(i, at) => {
                if let At::AccIdle(_) = at {
                    // nothing to pre-account
                }
                st.threads[i].granted = true;
                st.threads[i].at = At::Running;
                if matches!(at, At::Probe(SiteK::Deq, 1, _)) {
                    st.threads[i].at = At::Exited;
                }
                sched.cv.notify_all();
            }
        }
        let (h, _) = abstract_state(&st, next_job);
        drop(st);
        // the state *after* the step is only known once the thread parks again; hash the
        // pre-state + choice instead, which identifies the successor deterministically
        let sh = hash_of(&(h, &c_kind(&c)));
        res.states.push(sh);
        res.steps += 1;
        if strat.prune(d, sh) {
            res.pruned = true;
            break;
        }
        d += 1;
    }
    // finish freely
    sched.set_free();
    verif::install(None);
    // the pool shuts down on its own once every thread runs freely; if it does not (a worker
    // asleep where no probe sees it), leave the threads behind and say so: nothing may hang here
    let t_free = Instant::now();
    while !acceptor.is_finished() && t_free.elapsed() < Duration::from_secs(20) {
        std::thread::sleep(Duration::from_millis(5));
    }
    if acceptor.is_finished() {
        let _ = acceptor.join();
    } else {
        res.hung = true;
        if res.violation.is_none() && res.inconclusive.is_none() {
            res.inconclusive = Some("the pool did not shut down within 20 s after the schedule was released".into());
        }
    }
    res
}

fn c_kind(c: &Choice) -> (u8, At) {
    match c {
        Choice::Step(_, at) => (0, if let At::InJob(_) = at { At::InJob(0) } else { *at }),
        Choice::Release(_) => (1, At::Running),
    }
}

// ------------------------------------------------------------------ strategies

pub struct Dfs {
    pub stack: Vec<(usize, usize)>,
    pub replay_len: usize,
    pub visited: HashSet<u64>,
}
impl Strategy for Dfs {
    fn choose(&mut self, d: usize, choices: &[Choice]) -> usize {
        if d < self.stack.len() {
            self.stack[d].0
        } else {
            self.stack.push((0, choices.len()));
            0
        }
    }
    fn prune(&mut self, d: usize, state: u64) -> bool {
        if d + 1 < self.replay_len {
            return false;
        }
        !self.visited.insert(state)
    }
}
impl Dfs {
    pub fn new() -> Dfs {
        Dfs { stack: Vec::new(), replay_len: 0, visited: HashSet::new() }
    }
    /// advance to the next unexplored branch; false when exhausted
    pub fn backtrack(&mut self) -> bool {
        while let Some((c, n)) = self.stack.last().copied() {
            if c + 1 < n {
                self.stack.last_mut().unwrap().0 += 1;
                self.replay_len = self.stack.len();
                return true;
            }
            self.stack.pop();
        }
        false
    }
}

pub struct RandomWalk {
    pub rng: Rng,
}
impl Strategy for RandomWalk {
    fn choose(&mut self, _d: usize, choices: &[Choice]) -> usize {
        self.rng.below(choices.len())
    }
    fn prune(&mut self, _d: usize, _s: u64) -> bool {
        false
    }
}

pub struct Fixed {
    pub picks: Vec<usize>,
}
impl Strategy for Fixed {
    fn choose(&mut self, d: usize, _c: &[Choice]) -> usize {
        self.picks.get(d).copied().unwrap_or(0)
    }
    fn prune(&mut self, _d: usize, _s: u64) -> bool {
        false
    }
}

// ------------------------------------------------------------------ shard runner (child process)

/// `vh c14shard <tier> <seed> <shard> <nshards>`: explores its share of the configurations and
/// prints one JSON line with what it observed.
pub fn shard_main(tier: Tier, seed: u64, shard: usize, nshards: usize) -> i32 {
    let mut cfgs: Vec<PoolCfg> = Vec::new();
    for initial in 1..=3 {
        for max in 1..=4 {
            for jobs in 1..=5 {
                cfgs.push(PoolCfg { initial, max, jobs });
            }
        }
    }
    let dfs_cap = tier.pick(350usize, 40_000usize);
    let rand_n = tier.pick(60usize, 3000usize);
    let mut out = json!({"executions": 0, "dfs_executions": 0, "random_executions": 0, "exhausted_configs": 0, "capped_configs": 0, "steps": 0, "inconclusive": 0});
    let mut schedules: HashSet<u64> = HashSet::new();
    let mut states: HashSet<u64> = HashSet::new();
    let mut nontrivial: HashSet<u64> = HashSet::new();
    let mut violations: Vec<Value> = Vec::new();
    let mut samples: Vec<Value> = Vec::new();
    let mut inc = |k: &str, n: u64, out: &mut Value| {
        out[k] = json!(out[k].as_u64().unwrap_or(0) + n);
    };
    let mut poisoned = false;
    for (ci, cfg) in cfgs.iter().enumerate() {
        if ci % nshards != shard {
            continue;
        }
        // DFS
        let mut dfs = Dfs::new();
        let mut n = 0;
        let mut exhausted = false;
        loop {
            let r = execute(*cfg, &mut dfs, 400);
            n += 1;
            inc("executions", 1, &mut out);
            inc("dfs_executions", 1, &mut out);
            inc("steps", r.steps as u64, &mut out);
            record(&r, cfg, "dfs", &mut schedules, &mut states, &mut nontrivial, &mut violations, &mut samples, &mut out);
            if r.hung {
                poisoned = true;
                break;
            }
            if !dfs.backtrack() {
                exhausted = true;
                break;
            }
            if n >= dfs_cap || violations.len() >= 3 || out["inconclusive"].as_u64().unwrap_or(0) >= 3 {
                break;
            }
        }
        inc(if exhausted { "exhausted_configs" } else { "capped_configs" }, 1, &mut out);
        if poisoned {
            break;
        }
        // random walks (larger configurations benefit most)
        let mut rw = RandomWalk { rng: Rng::lane(seed, 5000 + ci as u64) };
        for _ in 0..rand_n {
            if violations.len() >= 3 || out["inconclusive"].as_u64().unwrap_or(0) >= 3 {
                break;
            }
            let r = execute(*cfg, &mut rw, 400);
            inc("executions", 1, &mut out);
            inc("random_executions", 1, &mut out);
            inc("steps", r.steps as u64, &mut out);
            record(&r, cfg, "random", &mut schedules, &mut states, &mut nontrivial, &mut violations, &mut samples, &mut out);
            if r.hung {
                poisoned = true;
                break;
            }
        }
        if poisoned {
            break;
        }
    }
    out["stopped_after_hung_execution"] = json!(poisoned);
    out["schedules"] = json!(schedules.into_iter().collect::<Vec<u64>>());
    out["states"] = json!(states.into_iter().collect::<Vec<u64>>());
    out["nontrivial"] = json!(nontrivial.into_iter().collect::<Vec<u64>>());
    out["violations"] = Value::Array(violations);
    out["samples"] = Value::Array(samples);
    println!("C14SHARD {}", out);
    0
}

#[allow(clippy::too_many_arguments)]
fn record(r: &ExecResult, cfg: &PoolCfg, strat: &str, schedules: &mut HashSet<u64>, states: &mut HashSet<u64>, nontrivial: &mut HashSet<u64>, violations: &mut Vec<Value>, samples: &mut Vec<Value>, out: &mut Value) {
    let sh = hash_of(&(cfg.initial, cfg.max, cfg.jobs, r.schedule.iter().map(c_kind).collect::<Vec<_>>()));
    schedules.insert(sh);
    if r.branching_seen {
        nontrivial.insert(sh);
    }
    for s in &r.states {
        states.insert(hash_of(&(cfg.initial, cfg.max, cfg.jobs, s)));
    }
    if r.inconclusive.is_some() {
        out["inconclusive"] = json!(out["inconclusive"].as_u64().unwrap_or(0) + 1);
    }
    let sched_txt: Vec<String> = r.schedule.iter().map(|c| format!("{:?}", c)).collect();
    if let Some((sig, msg)) = &r.violation {
        // picks for replay: index of each choice is not stored; the textual schedule + config is
        // the witness, replay re-runs DFS on this configuration until it re-finds it
        violations.push(json!({"sig": sig, "engine": "c14-pool", "strategy": strat, "initial": cfg.initial, "max": cfg.max, "jobs": cfg.jobs, "message": msg, "schedule": sched_txt}));
    }
    if samples.len() < 2 && r.steps > 12 && r.branching_seen {
        samples.push(json!({"initial": cfg.initial, "max": cfg.max, "jobs": cfg.jobs, "strategy": strat, "schedule": sched_txt}));
    }
}

/// Parent side: run the shards as child processes, merge into ctx.
pub fn run_controlled(ctx: &Ctx) {
    let nshards = workers().min(16);
    let exe = std::env::current_exe().expect("current exe");
    let children: Vec<_> = (0..nshards)
        .map(|k| {
            std::process::Command::new(&exe)
                .args(["c14shard", ctx.tier.name(), &ctx.seed.to_string(), &k.to_string(), &nshards.to_string()])
                .stdout(std::process::Stdio::piped())
                .stderr(std::process::Stdio::null())
                .spawn()
        })
        .collect();
    let mut schedules: HashSet<u64> = HashSet::new();
    let mut states: HashSet<u64> = HashSet::new();
    let mut nontrivial: HashSet<u64> = HashSet::new();
    for c in children {
        let c = match c {
            Ok(c) => c,
            Err(e) => {
                ctx.inconclusive(json!({"spawn shard": e.to_string()}));
                continue;
            }
        };
        let o = match c.wait_with_output() {
            Ok(o) => o,
            Err(e) => {
                ctx.inconclusive(json!({"shard": e.to_string()}));
                continue;
            }
        };
        let txt = String::from_utf8_lossy(&o.stdout);
        let line = match txt.lines().find_map(|l| l.strip_prefix("C14SHARD ")) {
            Some(l) => l,
            None => {
                ctx.inconclusive(json!({"shard": format!("no result line, exit {:?}", o.status)}));
                continue;
            }
        };
        let v: Value = serde_json::from_str(line).unwrap_or(Value::Null);
        for k in ["executions", "dfs_executions", "random_executions", "exhausted_configs", "capped_configs", "steps"] {
            ctx.count(&format!("controlled_{}", k), v[k].as_u64().unwrap_or(0));
        }
        for _ in 0..v["inconclusive"].as_u64().unwrap_or(0) {
            ctx.inconclusive(json!({"controlled execution": "threads did not settle"}));
        }
        for (set, key) in [(&mut schedules, "schedules"), (&mut states, "states"), (&mut nontrivial, "nontrivial")] {
            if let Some(a) = v[key].as_array() {
                for x in a {
                    if let Some(u) = x.as_u64() {
                        set.insert(u);
                    }
                }
            }
        }
        if let Some(a) = v["violations"].as_array() {
            for w in a {
                ctx.violation(w["sig"].as_str().unwrap_or("c14:?"), w.clone());
            }
        }
        if let Some(a) = v["samples"].as_array() {
            for s in a.iter().take(1) {
                ctx.sample(s.clone());
            }
        }
    }
    let execs = ctx.get_count("controlled_executions");
    ctx.cases(execs, nontrivial.iter().copied());
    for s in &schedules {
        ctx.set_insert("distinct_schedules", *s);
    }
    for s in &states {
        ctx.set_insert("distinct_abstract_states", *s);
    }
}

pub fn replay(ctx: &Ctx, w: &Value) {
    let g = |k: &str| w.get(k).and_then(|v| v.as_u64()).unwrap_or(1) as usize;
    let cfg = PoolCfg { initial: g("initial"), max: g("max"), jobs: g("jobs") };
    let want: Vec<String> = w.get("schedule").and_then(|v| v.as_array()).map(|a| a.iter().filter_map(|x| x.as_str().map(String::from)).collect()).unwrap_or_default();
    println!("replaying configuration {:?}: DFS until the recorded schedule ({} steps) or any violation is re-found", cfg, want.len());
    let mut dfs = Dfs::new();
    for n in 0..50_000 {
        let r = execute(cfg, &mut dfs, 400);
        if let Some((sig, msg)) = &r.violation {
            println!("re-found after {} executions: {}", n + 1, msg);
            ctx.violation(sig, json!({"engine": "c14-pool", "initial": cfg.initial, "max": cfg.max, "jobs": cfg.jobs, "message": msg, "schedule": r.schedule.iter().map(|c| format!("{:?}", c)).collect::<Vec<_>>()}));
            return;
        }
        if !dfs.backtrack() {
            break;
        }
    }
}
