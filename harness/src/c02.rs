//! C02: framing is independent of segmentation; an upgrade hands over every later byte.
use crate::core::*;
use crate::drive::*;
use crate::model::*;
use crate::sock::*;
use crate::svc::*;
use serde_json::{json, Value};
use std::time::Duration;

fn upgrade_req(token: &str) -> Vec<u8> {
    let mut b = serde_json::to_vec(&json!({"method": "org.verif.t.Upgrade", "upgrade": true, "parameters": {"token": token}})).unwrap();
    b.push(0);
    b
}

fn big_echo(len: usize, token: &str) -> Vec<u8> {
    // a single message of exactly `len` bytes including the NUL
    let base = serde_json::to_vec(&json!({"method": "org.verif.t.Echo", "parameters": {"token": token, "pad": ""}})).unwrap();
    let padn = len.saturating_sub(base.len() + 1);
    let mut b = serde_json::to_vec(&json!({"method": "org.verif.t.Echo", "parameters": {"token": token, "pad": "x".repeat(padn)}})).unwrap();
    b.push(0);
    b
}

fn payload(rng: &mut Rng, n: usize, with_lines: bool) -> Vec<u8> {
    // position-dependent bytes so loss/duplication/reordering is visible; NULs included
    let mut v = Vec::with_capacity(n);
    let mut line = 0usize;
    while v.len() < n {
        let s = format!("L{}:{:x};", line, rng.next() & 0xffff);
        v.extend_from_slice(s.as_bytes());
        if with_lines && rng.chance(1, 3) {
            v.push(b'\n');
            line += 1;
        } else if rng.chance(1, 10) {
            v.push(0);
        }
    }
    v.truncate(n);
    v
}

struct Stream {
    bytes: Vec<u8>,
    /// offset where the upgraded payload starts (None: no upgrade)
    payload_at: Option<usize>,
    desc: String,
}

fn gen_stream(rng: &mut Rng, class: usize) -> Stream {
    match class % 6 {
        0 | 1 => {
            let len = rng.range(1, 6);
            // half of the streams carry blanks inside their string values (a cut may fall
            // directly behind one)
            // ... or characters of 2, 3 and 4 bytes (a cut may fall inside one)
            let prefix = *rng.pick(&["s", "s a  b ", "s\u{fc}\u{65e5}\u{1f600}"]);
            let reqs = random_seq(rng, ALL_KINDS, len, prefix, 10);
            // optionally end with an incomplete message
            let mut bytes = seq_bytes(&reqs);
            let mut desc = format!("{:?}", reqs.iter().map(|r| r.describe()).collect::<Vec<_>>());
            if rng.chance(1, 4) {
                let extra = if rng.chance(1, 2) {
                    Req::new(Kind::Echo, Flags { more: false, oneway: false }, "partial").to_bytes()
                } else {
                    // layout between the tokens and blanks inside the value
                    "{ \"method\" : \"org.verif.t.Echo\",\r\n\t\"parameters\" : { \"token\" : \"par tial  x \u{e4}\u{20ac}\u{1f600} \" } }\0".as_bytes().to_vec()
                };
                let k = rng.range(1, extra.len() - 1);
                bytes.extend_from_slice(&extra[..k]);
                desc.push_str(&format!("+partial[{}]", k));
            }
            Stream { bytes, payload_at: None, desc }
        }
        2 => {
            let sizes = [8191usize, 8192, 8193, 16384, 100 * 1024];
            let sz = *rng.pick(&sizes);
            let mut bytes = Vec::new();
            let k = rng.below(3);
            let pre = random_seq(rng, CORE_KINDS, k, "p", 0);
            bytes.extend(seq_bytes(&pre));
            bytes.extend(big_echo(sz, "big"));
            let k = rng.below(3);
            let post = random_seq(rng, CORE_KINDS, k, "q", 0);
            bytes.extend(seq_bytes(&post));
            Stream { bytes, payload_at: None, desc: format!("{} + big message {} B + {}", pre.len(), sz, post.len()) }
        }
        _ => {
            // requests, upgrade, payload
            let k = rng.below(3);
            let pre = random_seq(rng, &[Kind::Echo, Kind::GetInfo, Kind::Fail, Kind::Stream2, Kind::UnknownIface, Kind::GenAdd], k, "u", 0);
            let mut bytes = seq_bytes(&pre);
            bytes.extend(upgrade_req("up"));
            let at = bytes.len();
            let sizes = [0usize, 1, 7, 60, 300, 4000, 8100, 8192, 9000, 20000, 40 * 1024];
            let n = *rng.pick(&sizes);
            bytes.extend(payload(rng, n, true));
            Stream { bytes, payload_at: Some(at), desc: format!("{} requests + upgrade + {} B payload", pre.len(), n) }
        }
    }
}

/// bytes after the last NUL
fn expected_tail(s: &[u8]) -> &[u8] {
    match s.iter().rposition(|&b| b == 0) {
        Some(p) => &s[p + 1..],
        None => s,
    }
}

fn up_received(log: &Log) -> (Vec<u8>, Vec<Vec<u8>>) {
    let l = log.lock().unwrap();
    let mut got = Vec::new();
    let mut pieces = Vec::new();
    for e in l.iter() {
        if let Ev::UpBytes(b) = e {
            got.extend_from_slice(b);
            pieces.push(b.clone());
        }
    }
    (got, pieces)
}

fn is_subsequence_in_order(part: &[u8], whole: &[u8]) -> bool {
    // every delivered piece must appear at increasing offsets (checked on the concatenation
    // greedily)
    let mut i = 0;
    for &b in part {
        loop {
            if i >= whole.len() {
                return false;
            }
            i += 1;
            if whole[i - 1] == b {
                break;
            }
        }
    }
    true
}

fn wit(st: &Stream, cuts: &[usize], mode: UpMode, caller: &str, msg: String, run: &MemRun) -> Value {
    json!({"engine": "c02", "stream_hex": hex(&st.bytes), "stream_desc": st.desc, "cuts": cuts, "payload_at": st.payload_at,
           "up_mode": format!("{:?}", mode), "caller": caller, "message": msg, "reply_bytes": show(&run.out), "closed": run.closed, "tail_len": run.tail.len()})
}

/// Judge one (stream, segmentation). `base` is the single-chunk run with the same service.
#[allow(clippy::too_many_arguments)]
fn judge_mem(ctx: &Ctx, st: &Stream, cuts: &[usize], mode: UpMode, caller: Caller, cname: &str) {
    let log = new_log();
    let svc = standard_service(SvcCfg { log: Some(log.clone()), up: mode, ..Default::default() });
    let base = run_chunks(&svc, &[&st.bytes[..]], caller, Some(log.clone()));
    let (base_up, _) = up_received(&log);
    log.lock().unwrap().clear();
    let chunks = cut(&st.bytes, cuts);
    let run = run_chunks(&svc, &chunks, caller, Some(log.clone()));
    let (got_up, _) = up_received(&log);
    let inside = cuts.iter().any(|&c| c > 0 && c < st.bytes.len());
    let complete = st.bytes.contains(&0);
    let d = if inside && complete { Some(hash_of(&(hash_of(&st.bytes), cuts, format!("{:?}{}", mode, cname)))) } else { None };
    ctx.case(d);
    ctx.count("handle_calls_observed", run.handle_calls as u64);
    if let Some(p) = &run.panicked {
        ctx.violation("c02:panic", wit(st, cuts, mode, cname, format!("panic {}", p), &run));
        return;
    }
    match st.payload_at {
        None => {
            if run.out != base.out {
                ctx.violation("c02:replies-depend-on-segmentation", wit(st, cuts, mode, cname, format!("single-chunk replies: {}", show(&base.out)), &run));
                return;
            }
            if run.closed.is_some() != base.closed.is_some() {
                ctx.violation("c02:close-depends-on-segmentation", wit(st, cuts, mode, cname, format!("single-chunk closed={:?}", base.closed), &run));
                return;
            }
            if run.closed.is_none() {
                let want = expected_tail(&st.bytes);
                if run.tail != want {
                    ctx.violation("c02:tail-wrong", wit(st, cuts, mode, cname, format!("final tail {} != bytes after the last NUL {}", show(&run.tail), show(want)), &run));
                    return;
                }
                if base.tail != want {
                    ctx.violation("c02:tail-wrong-single-chunk", wit(st, &[], mode, cname, format!("single-chunk tail {} != {}", show(&base.tail), show(want)), &base));
                }
            }
        }
        Some(at) => {
            let pay = &st.bytes[at..];
            for (label, r, up) in [("chunked", &run, &got_up), ("single-chunk", &base, &base_up)] {
                if r.closed.is_some() {
                    // the handlers used here never fail; a close means handle() failed
                    ctx.violation("c02:upgrade-closed", wit(st, cuts, mode, cname, format!("{} run closed: {:?}", label, r.closed), r));
                    return;
                }
                match mode {
                    UpMode::Drain => {
                        let mut all = up.clone();
                        all.extend_from_slice(&r.tail);
                        if up != pay {
                            let sig = if all == pay { "c02:upgrade-bytes-left-with-caller" } else if up.len() < pay.len() { "c02:upgrade-bytes-lost" } else { "c02:upgrade-bytes-wrong" };
                            ctx.violation(
                                &format!("{}:{}-caller:{}", sig, cname, if r.upgrade_input_len.unwrap_or(0) > 8192 { "upgrade-request-in-input>8KiB" } else { "input<=8KiB" }),
                                wit(st, cuts, mode, cname, format!("{}: upgraded handler received {} of {} payload bytes (tail held by caller: {})", label, up.len(), pay.len(), r.tail.len()), r),
                            );
                            return;
                        }
                    }
                    UpMode::Line => {
                        let mut all = up.clone();
                        all.extend_from_slice(&r.tail);
                        if all != pay {
                            ctx.violation(
                                &format!("c02:upgrade-bytes-lost:{}-caller:{}", cname, if r.upgrade_input_len.unwrap_or(0) > 8192 { "upgrade-request-in-input>8KiB" } else { "input<=8KiB" }),
                                wit(st, cuts, mode, cname, format!("{}: handler lines ({} B) + unread tail ({} B) != payload ({} B)", label, up.len(), r.tail.len(), pay.len()), r),
                            );
                            return;
                        }
                    }
                    UpMode::OneLine => {
                        if !is_subsequence_in_order(up, pay) {
                            ctx.violation("c02:upgrade-bytes-duplicated-or-reordered", wit(st, cuts, mode, cname, format!("{}: delivered bytes are not an in-order subsequence of the payload", label), r));
                            return;
                        }
                        ctx.count("skipped_unspecified", 1);
                    }
                    UpMode::Script => {}
                }
            }
            // replies to the varlink part (before the first ack) must not depend on segmentation
            let n = base.out.iter().rposition(|&b| b == 0).map(|p| p + 1).unwrap_or(0);
            if mode == UpMode::Drain && run.out != base.out {
                ctx.violation("c02:replies-depend-on-segmentation", wit(st, cuts, mode, cname, format!("single-chunk replies: {}", show(&base.out[..n])), &run));
            }
        }
    }
}

fn seg_random(rng: &mut Rng, len: usize, k: usize) -> Vec<usize> {
    let mut c: Vec<usize> = (0..k).map(|_| rng.range(1, len.max(2) - 1)).collect();
    c.sort();
    c.dedup();
    c
}

pub fn run_memory(ctx: &Ctx) {
    let nw = workers();
    let nstreams = ctx.tier.pick(400usize, 10_000usize);
    let ref_caller = Caller { keep_reader: false, flush_upgraded: true };
    let keep_caller = Caller { keep_reader: true, flush_upgraded: true };
    par(nw, |w| {
        let mut rng = Rng::lane(ctx.seed, w as u64 + 200);
        let mut i = w;
        while i < nstreams {
            let st = gen_stream(&mut rng, i);
            let n = st.bytes.len();
            let modes: &[UpMode] = if st.payload_at.is_some() { &[UpMode::Drain, UpMode::Line, UpMode::OneLine] } else { &[UpMode::Drain] };
            for &mode in modes {
                // every single cut for streams <= 2 KiB (quick: <= 600 B and a stride above)
                let limit = ctx.tier.pick(600, 2048);
                if n <= limit {
                    for c in 1..n {
                        judge_mem(ctx, &st, &[c], mode, ref_caller, "tail-only");
                    }
                } else {
                    for _ in 0..40 {
                        let c = rng.range(1, n - 1);
                        judge_mem(ctx, &st, &[c], mode, ref_caller, "tail-only");
                    }
                    // cuts around the 8 KiB internal buffer boundaries
                    for b in [8191usize, 8192, 8193, 16384] {
                        if b < n {
                            judge_mem(ctx, &st, &[b], mode, ref_caller, "tail-only");
                        }
                        if let Some(at) = st.payload_at {
                            if at + b < n {
                                judge_mem(ctx, &st, &[at + b], mode, ref_caller, "tail-only");
                            }
                        }
                    }
                }
                // every pair of cuts for short streams
                if n <= ctx.tier.pick(60, 120) {
                    for a in 1..n {
                        for b in a + 1..n {
                            judge_mem(ctx, &st, &[a, b], mode, ref_caller, "tail-only");
                        }
                    }
                }
                // one byte at a time
                if n <= 3000 {
                    let all: Vec<usize> = (1..n).collect();
                    judge_mem(ctx, &st, &all, mode, ref_caller, "tail-only");
                }
                // random k-cuts
                for _ in 0..ctx.tier.pick(6, 30) {
                    let k = rng.range(2, 16);
                    let cuts = seg_random(&mut rng, n, k);
                    judge_mem(ctx, &st, &cuts, mode, ref_caller, "tail-only");
                    judge_mem(ctx, &st, &cuts, mode, keep_caller, "keeps-reader");
                }
                // upgrade streams: cut exactly at / around the end of the upgrade request
                if let Some(at) = st.payload_at {
                    for c in [at.saturating_sub(1), at, at + 1] {
                        if c > 0 && c < n {
                            judge_mem(ctx, &st, &[c], mode, ref_caller, "tail-only");
                            judge_mem(ctx, &st, &[c], mode, keep_caller, "keeps-reader");
                        }
                    }
                    judge_mem(ctx, &st, &[], mode, ref_caller, "tail-only");
                    judge_mem(ctx, &st, &[], mode, keep_caller, "keeps-reader");
                }
            }
            if i % 16 == 0 || ctx.want_sample() {
                ctx.sample(json!({"stream": st.desc, "bytes": n, "payload_at": st.payload_at, "head": show(&st.bytes[..n.min(120)])}));
            }
            i += nw;
        }
    });
}

/// Socket half: the segmentation is the write/delay schedule of the sender.
pub fn run_sockets(ctx: &Ctx) {
    let nconn = ctx.tier.pick(300usize, 10_000usize);
    for (ti, &tr) in [Transport::UnixPath, Transport::Tcp].iter().enumerate() {
        for &mode in &[UpMode::Drain, UpMode::Line, UpMode::OneLine] {
            let log = new_log();
            let mut server = match Server::start(standard_service(SvcCfg { log: Some(log.clone()), up: mode, ..Default::default() }), tr, ServerCfg::default()) {
                Ok(s) => s,
                Err(e) => {
                    ctx.inconclusive(json!({ "server_start": e }));
                    continue;
                }
            };
            if server.wait_ready().is_err() {
                ctx.inconclusive(json!({"server_ready": "no"}));
                continue;
            }
            let mut rng = Rng::lane(ctx.seed, (ti * 10) as u64 + 300 + mode as u64);
            let refsvc = standard_service(SvcCfg { up: mode, ..Default::default() });
            let mut stalls = 0usize;
            for i in 0..nconn / 4 {
                // a broken tree can make every case sit through its watchdog: enough is enough
                if ctx.violations() >= 3 || stalls >= 5 {
                    break;
                }
                // upgraded cases are sequential so that the shared server log is unambiguous
                let st = gen_stream(&mut rng, if i % 2 == 0 { 3 } else { i });
                let n = st.bytes.len();
                let k = rng.below(6);
                let mut cuts = if n > 2 { seg_random(&mut rng, n, k) } else { vec![] };
                if let Some(at) = st.payload_at {
                    // the interesting schedules: payload in the same write as the request, or split right after it
                    match rng.below(3) {
                        0 => cuts.retain(|&c| c != at),
                        1 => {
                            cuts.push(at);
                            cuts.sort();
                            cuts.dedup();
                        }
                        _ => {}
                    }
                }
                let mut delay = rng.below(3000) as u64;
                if i % 25 == 11 {
                    // a sender that pauses for a human-scale time inside a message (longer than any
                    // poll interval the server may use): a pause is not the end of anything
                    delay = 150_000 + rng.below(300_000) as u64;
                    cuts.truncate(2);
                    if cuts.is_empty() && n > 2 {
                        cuts.push(n - 1);
                    }
                }
                log.lock().unwrap().clear();
                let mut conn = match RawConn::connect(&server.address) {
                    Ok(c) => c,
                    Err(e) => {
                        ctx.inconclusive(json!({"connect": e.to_string()}));
                        continue;
                    }
                };
                // write in a thread: big streams would otherwise deadlock against unread replies
                let bytes = st.bytes.clone();
                let cuts2 = cuts.clone();
                let (out, eof) = std::thread::scope(|s| {
                    let c2 = match &conn.s {
                        Sock::Unix(u) => Sock::Unix(u.try_clone().unwrap()),
                        Sock::Tcp(t) => Sock::Tcp(t.try_clone().unwrap()),
                    };
                    s.spawn(move || {
                        let mut wc = RawConn { s: c2, rbuf: vec![], eof: false };
                        let _ = wc.write_segmented(&bytes, &cuts2, delay);
                        wc.shutdown_write();
                    });
                    conn.read_to_eof(Duration::from_secs(20))
                });
                if !eof {
                    stalls += 1;
                    ctx.inconclusive(json!({"why": "no EOF within 20 s after half-close", "stream": st.desc}));
                    continue;
                }
                // give the worker a moment to log the last consumed bytes: EOF on our side
                // happens after the server side finished, because the worker closes last.
                let base = run_whole(&refsvc, &st.bytes, None);
                let inside = !cuts.is_empty();
                ctx.case(if inside && st.bytes.contains(&0) { Some(hash_of(&(hash_of(&st.bytes), &cuts, format!("{:?}{:?}", tr, mode)))) } else { None });
                ctx.count("socket_connections", 1);
                let fake = MemRun { out: out.clone(), closed: None, panicked: None, tail: vec![], upgraded: None, left_in_reader: 0, handle_calls: 0, out_per_call: vec![], upgrade_input_len: None };
                match st.payload_at {
                    None => {
                        if canon_frames(&out) != canon_frames(&base.out) {
                            ctx.violation("c02:socket-replies-differ-from-memory", wit(&st, &cuts, mode, &format!("{:?}", tr), format!("in-memory single chunk: {}", show(&base.out)), &fake));
                        }
                    }
                    Some(at) => {
                        let pay = &st.bytes[at..];
                        let (got, _) = up_received(&log);
                        let unread: Vec<u8> = log.lock().unwrap().iter().rev().find_map(|e| if let Ev::UpUnread(b) = e { Some(b.clone()) } else { None }).unwrap_or_default();
                        if mode == UpMode::OneLine {
                            // the handler returns after every line; whether bytes it did not consume
                            // are offered again is not specified — but nothing may arrive twice or
                            // out of order (in memory judged the same way)
                            if !is_subsequence_in_order(&got, pay) {
                                ctx.violation("c02:upgrade-bytes-duplicated-or-reordered", wit(&st, &cuts, mode, &format!("{:?}", tr), format!("listen(): the {} bytes delivered to the one-line handler are not an in-order subsequence of the {} payload bytes", got.len(), pay.len()), &fake));
                            } else {
                                ctx.count("skipped_unspecified", 1);
                            }
                            continue;
                        }
                        let ok = match mode {
                            UpMode::Drain => got == pay,
                            _ => {
                                let mut all = got.clone();
                                // the trailing incomplete line is legitimately unread at EOF
                                all.extend_from_slice(&unread);
                                all == pay
                            }
                        };
                        if !ok {
                            let same_write = !cuts.contains(&at) && !pay.is_empty();
                            ctx.violation(
                                &format!("c02:listen-upgrade-bytes-lost:{}", if same_write { "payload-in-same-write" } else { "payload-in-later-write" }),
                                wit(&st, &cuts, mode, &format!("{:?}", tr), format!("upgraded handler in the server received {} of {} payload bytes", got.len(), pay.len()), &fake),
                            );
                        }
                    }
                }
            }
            let _ = server.stop();
        }
    }
}

pub fn main(ctx: &Ctx, repo_bin_dir: Option<String>) -> i32 {
    ctx.set_rule("byte streams = request sequences (+partial last message), messages of 8 KiB+-1/16 KiB/100 KiB, and requests+upgrade+payload (0 B-40 KiB); segmentations = every single cut (short streams), every pair of cuts (very short), one-byte-at-a-time, random k-cuts, cuts at 8 KiB buffer boundaries and around the upgrade request; sockets: the same as write boundaries with delays; distinct = (stream hash, cut positions, handler mode/caller); non-trivial = a cut strictly inside the stream and >=1 complete message");
    ctx.assume("reply bytes are compared implementation-against-itself (single chunk vs chunked, same service instance); the tail and the upgraded byte stream are compared with what the harness sent");
    ctx.assume("callers: 'tail-only' = the reference callers (varlink/src/test.rs, examples/ping multiplex) which re-feed only the returned tail; 'keeps-reader' also re-feeds what handle() left unread in the reader it was given");
    ctx.assume("one-line-per-call upgraded handler is judged only for duplication/reordering (statement silent on re-offering unconsumed bytes)");
    run_memory(ctx);
    run_sockets(ctx);
    ctx.assume("process level: examples/ping's multiplex loop (`ping -m`, the anchored reference caller) is judged against a model of the ping service; streams stay below the socket buffer size because that loop's single non-blocking write of the replies is a documented TODO of the example, not part of this property");
    match repo_bin_dir {
        Some(d) => crate::c02mux::run(ctx, &d),
        None => ctx.inconclusive(json!("c02-mux: VERIF_REPO_BIN not set (the repository's ping binary was not built)")),
    }
    ctx.finish(ctx.tier.pick(20_000, 500_000))
}

pub fn replay(ctx: &Ctx, w: &Value, repo_bin_dir: Option<String>) {
    if w.get("engine").and_then(|v| v.as_str()) == Some("c02-mux") {
        match repo_bin_dir {
            Some(d) => crate::c02mux::replay(ctx, w, &d),
            None => ctx.inconclusive(json!("c02-mux: VERIF_REPO_BIN not set")),
        }
        return;
    }
    let bytes = unhex(w.get("stream_hex").and_then(|v| v.as_str()).unwrap_or(""));
    let cuts: Vec<usize> = w.get("cuts").and_then(|v| v.as_array()).map(|a| a.iter().filter_map(|x| x.as_u64().map(|u| u as usize)).collect()).unwrap_or_default();
    let st = Stream { bytes, payload_at: w.get("payload_at").and_then(|v| v.as_u64()).map(|u| u as usize), desc: "replay".into() };
    let mode = match w.get("up_mode").and_then(|v| v.as_str()) {
        Some("Line") => UpMode::Line,
        Some("OneLine") => UpMode::OneLine,
        _ => UpMode::Drain,
    };
    let keep = w.get("caller").and_then(|v| v.as_str()) == Some("keeps-reader");
    judge_mem(ctx, &st, &cuts, mode, Caller { keep_reader: keep, flush_upgraded: true }, if keep { "keeps-reader" } else { "tail-only" });
}
