//! Sanitizer overlays (thorough tier): reduced in-memory workloads that a UB/data-race
//! interpreter can execute. `vh overlay <Cxx> <n>` runs single-process, no files, no sockets
//! (Miri), and prints `OVERLAY property=<id> cases=<n> violations=<k>`; any oracle failure is
//! printed as `OVERLAY-VIOLATION ...`. The sanitizer itself reports UB / races by aborting.
use crate::core::*;
use crate::drive::*;
use crate::model::*;
use crate::svc::*;
use serde_json::{json, Value};
use std::io::{Read, Write};
use std::sync::mpsc::{channel, Receiver, Sender};
use std::sync::{Arc, Mutex, RwLock};
use varlink::{Connection, MethodCall};

fn report(id: &str, cases: usize, viol: &[String]) -> i32 {
    for v in viol.iter().take(5) {
        println!("OVERLAY-VIOLATION property={} {}", id, v);
    }
    println!("OVERLAY property={} cases={} violations={}", id, cases, viol.len());
    if viol.is_empty() {
        0
    } else {
        1
    }
}

/// channel-backed byte pipe (Read + Write ends) usable under Miri
pub struct ChanReader {
    rx: Mutex<Receiver<Vec<u8>>>,
    buf: Mutex<Vec<u8>>,
}
pub struct ChanWriter {
    tx: Mutex<Sender<Vec<u8>>>,
}
impl Read for ChanReader {
    fn read(&mut self, out: &mut [u8]) -> std::io::Result<usize> {
        let mut b = self.buf.lock().unwrap();
        if b.is_empty() {
            match self.rx.lock().unwrap().recv() {
                Ok(v) => *b = v,
                Err(_) => return Ok(0),
            }
        }
        let n = out.len().min(b.len());
        out[..n].copy_from_slice(&b[..n]);
        b.drain(..n);
        Ok(n)
    }
}
impl Write for ChanWriter {
    fn write(&mut self, b: &[u8]) -> std::io::Result<usize> {
        self.tx.lock().unwrap().send(b.to_vec()).map_err(|_| std::io::Error::from(std::io::ErrorKind::BrokenPipe))?;
        Ok(b.len())
    }
    fn flush(&mut self) -> std::io::Result<()> {
        Ok(())
    }
}
pub fn pipe() -> (ChanWriter, ChanReader) {
    let (tx, rx) = channel();
    (ChanWriter { tx: Mutex::new(tx) }, ChanReader { rx: Mutex::new(rx), buf: Mutex::new(Vec::new()) })
}

/// client Connection + fake server thread over two channel pipes
fn chan_connection(delay_yield: bool) -> (Arc<RwLock<Connection>>, std::thread::JoinHandle<usize>) {
    let (c2s_w, mut c2s_r) = pipe();
    let (mut s2c_w, s2c_r) = pipe();
    let mut c = Connection::default();
    let r: Box<dyn Read + Send + Sync> = Box::new(s2c_r);
    let w: Box<dyn Write + Send + Sync> = Box::new(c2s_w);
    c.reader = Some(std::io::BufReader::new(r));
    c.writer = Some(w);
    let h = std::thread::spawn(move || {
        let mut buf = Vec::new();
        let mut seen = 0usize;
        let mut tmp = [0u8; 4096];
        loop {
            match c2s_r.read(&mut tmp) {
                Ok(0) | Err(_) => return seen,
                Ok(n) => buf.extend_from_slice(&tmp[..n]),
            }
            while let Some(p) = buf.iter().position(|b| *b == 0) {
                let f: Vec<u8> = buf.drain(..=p).collect();
                let v: Value = serde_json::from_slice(&f[..f.len() - 1]).unwrap_or(Value::Null);
                seen += 1;
                if v["oneway"] == json!(true) {
                    continue;
                }
                if delay_yield {
                    std::thread::yield_now();
                }
                let token = v["parameters"]["token"].clone();
                let mut out = serde_json::to_vec(&json!({"parameters": {"token": token}})).unwrap();
                out.push(0);
                if s2c_w.write_all(&out).is_err() {
                    return seen;
                }
            }
        }
    });
    (Arc::new(RwLock::new(c)), h)
}

pub fn main(id: &str, n: usize) -> i32 {
    let seed: u64 = std::env::var("VERIF_SEED").ok().and_then(|s| s.parse().ok()).unwrap_or(1);
    let mut rng = Rng::new(seed ^ 0x0ee);
    let mut viol: Vec<String> = Vec::new();
    match id {
        "C01" | "C04" => {
            let svc = standard_service(SvcCfg::default());
            for i in 0..n {
                let len = rng.range(1, 6);
                let reqs = random_seq(&mut rng, ALL_KINDS, len, "m", 25);
                let d = rng.range(1, len);
                let run = crate::c01::run_mem(&svc, &reqs, d);
                if let Err((sig, m)) = align(&reqs, &run.out, run.closed.is_some(), STD_REGISTERED) {
                    viol.push(format!("case {} {}: {}", i, sig, m));
                }
                if run.panicked.is_some() {
                    viol.push(format!("case {} panic", i));
                }
            }
            report(id, n, &viol)
        }
        "C02" => {
            let svc = standard_service(SvcCfg::default());
            for i in 0..n {
                let len = rng.range(1, 4);
                let reqs = random_seq(&mut rng, CORE_KINDS, len, "m", 10);
                let s = seq_bytes(&reqs);
                let base = run_whole(&svc, &s, None);
                let k = rng.range(1, 4);
                let mut cuts: Vec<usize> = (0..k).map(|_| rng.range(1, s.len() - 1)).collect();
                cuts.sort();
                cuts.dedup();
                let chunks = cut(&s, &cuts);
                let run = run_chunks(&svc, &chunks, Caller { keep_reader: false, flush_upgraded: true }, None);
                if run.out != base.out || run.tail != base.tail {
                    viol.push(format!("case {} segmentation changes the result (cuts {:?})", i, cuts));
                }
            }
            report(id, n, &viol)
        }
        "C05" => {
            let ops = ["c1", "c0", "r", "e"];
            let mut cases = 0;
            for idx in 0..n {
                let len = 1 + idx % 4;
                let script: Vec<&str> = (0..len).map(|k| ops[(idx / (4usize.pow(k as u32))) % 4]).collect();
                for f in ALL_FLAGS {
                    let log = new_log();
                    let svc = standard_service(SvcCfg { log: Some(log.clone()), ..Default::default() });
                    let mut req = json!({"method": "org.verif.t.Script", "parameters": {"ops": script, "token": "T"}});
                    if f.more {
                        req["more"] = json!(true);
                    }
                    if f.oneway {
                        req["oneway"] = json!(true);
                    }
                    let mut b = serde_json::to_vec(&req).unwrap();
                    b.push(0);
                    let run = run_whole(&svc, &b, Some(log.clone()));
                    for fr in canon_frames(&run.out) {
                        if is_continues(&fr) && !f.more {
                            viol.push(format!("script {:?}: continues frame without more", script));
                        }
                    }
                    cases += 1;
                }
            }
            report(id, cases, &viol)
        }
        "C06" => {
            let svc = standard_service(SvcCfg::default());
            for i in 0..n {
                let len = rng.range(1, 3);
                let reqs = random_seq(&mut rng, CORE_KINDS, len, "m", 10);
                let mut s = seq_bytes(&reqs);
                let p = rng.below(s.len());
                match rng.below(4) {
                    0 => s.truncate(p),
                    1 => s[p] ^= 1 << rng.below(8),
                    2 => {
                        s.insert(p, 0xff);
                    }
                    _ => {
                        s.insert(p, 0);
                    }
                }
                let run = run_whole(&svc, &s, None);
                if run.panicked.is_some() {
                    viol.push(format!("case {} panic on {}", i, show(&s)));
                }
            }
            report(id, n, &viol)
        }
        "C07" => {
            // 2-3 threads sharing one channel-backed connection; the interpreter's scheduler
            // (-Zmiri-many-seeds) pre-empts inside the library's lock and take/put of the slots
            let (conn, srv) = chan_connection(true);
            let nthreads = 2 + (seed as usize % 2);
            let oks = Arc::new(Mutex::new(0usize));
            let bad = Arc::new(Mutex::new(Vec::<String>::new()));
            std::thread::scope(|s| {
                for th in 0..nthreads {
                    let conn = conn.clone();
                    let oks = oks.clone();
                    let bad = bad.clone();
                    s.spawn(move || {
                        for i in 0..n {
                            let token = format!("t{}i{}", th, i);
                            match MethodCall::<Value, Value, varlink::Error>::new(conn.clone(), "x.y.M", json!({ "token": token })).call() {
                                Ok(v) if v["token"] == json!(token) => *oks.lock().unwrap() += 1,
                                Ok(v) => bad.lock().unwrap().push(format!("foreign reply {} for {}", v, token)),
                                Err(e) if matches!(e.kind(), varlink::ErrorKind::ConnectionBusy) => {}
                                Err(e) => bad.lock().unwrap().push(format!("{:?}", e.kind())),
                            }
                            std::thread::yield_now();
                        }
                    });
                }
            });
            drop(conn);
            let seen = srv.join().unwrap_or(0);
            let oks = *oks.lock().unwrap();
            viol.extend(bad.lock().unwrap().iter().cloned());
            if seen != oks {
                viol.push(format!("server saw {} requests, {} calls succeeded", seen, oks));
            }
            report(id, nthreads * n, &viol)
        }
        "C14" => {
            // the real pool through the wrapper, free-running: n jobs, max 2; bound oracle
            let running = Arc::new(Mutex::new((0usize, 0usize)));
            {
                let mut pool = varlink::verif::Pool::new(1, 2);
                let (tx, rx) = channel::<()>();
                let rx = Arc::new(Mutex::new(rx));
                for _ in 0..n {
                    let running = running.clone();
                    let rx = rx.clone();
                    pool.execute(move || {
                        {
                            let mut r = running.lock().unwrap();
                            r.0 += 1;
                            r.1 = r.1.max(r.0);
                        }
                        let _ = rx.lock().unwrap().recv();
                        running.lock().unwrap().0 -= 1;
                    });
                }
                for _ in 0..n {
                    let _ = tx.send(());
                }
            }
            let maxr = running.lock().unwrap().1;
            if maxr > 2 {
                viol.push(format!("{} jobs ran at once with max=2", maxr));
            }
            report(id, n, &viol)
        }
        "C17" => {
            use varlink::{Reply, Request, StringHashSet};
            let keys = ["", "a", "ü", "q\"", "\\", "\u{0}", "key"];
            for i in 0..n {
                let mut s = StringHashSet::new();
                for k in 0..(i % 4) {
                    s.insert(keys[(i + k) % keys.len()].to_string());
                }
                let txt = serde_json::to_string(&s).unwrap();
                match serde_json::from_str::<StringHashSet>(&txt) {
                    Ok(b) if b == s => {}
                    other => viol.push(format!("set {} round trip: {:?}", txt, other.map(|_| ()))),
                }
                let r = Request { more: if i % 2 == 0 { Some(true) } else { None }, oneway: None, upgrade: Some(false), method: "a.b.C".into(), parameters: Some(json!({"k": [i, null, {"x": keys[i % keys.len()]}]})) };
                let t = serde_json::to_vec(&r).unwrap();
                if serde_json::from_slice::<Request>(&t).ok().as_ref() != Some(&r) {
                    viol.push(format!("request {} round trip", String::from_utf8_lossy(&t)));
                }
                let rp = Reply { continues: Some(i % 3 == 0), error: if i % 5 == 0 { Some("a.b.E".into()) } else { None }, parameters: None };
                let t = serde_json::to_string(&rp).unwrap();
                if serde_json::from_str::<Reply>(&t).ok().as_ref() != Some(&rp) {
                    viol.push(format!("reply {} round trip", t));
                }
            }
            report(id, n, &viol)
        }
        _ => {
            println!("OVERLAY property={} cases=0 violations=0 (no overlay workload)", id);
            0
        }
    }
}
