//! vh <property> <quick|thorough> [--replay <path>]
use vh::core::*;

fn main() {
    let args: Vec<String> = std::env::args().collect();
    if args.len() < 3 {
        eprintln!("usage: vh <Cxx|sub> <quick|thorough> [--replay path]");
        std::process::exit(3);
    }
    let id = args[1].as_str();
    let tier = match args[2].as_str() {
        "quick" => Tier::Quick,
        "thorough" => Tier::Thorough,
        t => {
            eprintln!("bad tier {}", t);
            std::process::exit(3);
        }
    };
    let seed: u64 = std::env::var("VERIF_SEED").ok().and_then(|s| s.parse().ok()).unwrap_or(1);
    let replay = args.iter().position(|a| a == "--replay").and_then(|i| args.get(i + 1)).cloned();
    let code = match id {
        "C01" | "C04" => {
            let mut ctx = Ctx::new(id, tier, seed, "exploration");
            if let Some(p) = &replay {
                ctx.replay_mode = true;
                vh::c01::replay(&ctx, id, &load_witness(p));
                ctx.finish(0)
            } else {
                vh::c01::main(&ctx, id)
            }
        }
        _ => {
            eprintln!("unknown property {}", id);
            3
        }
    };
    std::process::exit(code);
}
