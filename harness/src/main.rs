//! vh <property> <quick|thorough> [--replay <path>]
use vh::core::*;

fn main() {
    let args: Vec<String> = std::env::args().collect();
    if args.len() == 2 && args[1] == "stdio" {
        std::process::exit(vh::c16::stdio_main());
    }
    if args.len() == 2 && args[1] == "c12worker" {
        std::process::exit(vh::c12::worker_main());
    }
    if args.len() < 3 {
        eprintln!("usage: vh <Cxx|sub> <quick|thorough> [--replay path]");
        std::process::exit(3);
    }
    let id = args[1].as_str();
    if id == "c14shard" {
        let tier = if args[2] == "thorough" { Tier::Thorough } else { Tier::Quick };
        let p = |i: usize| args[i].parse::<u64>().unwrap_or(0);
        std::process::exit(vh::c14pool::shard_main(tier, p(3), p(4) as usize, p(5) as usize));
    }
    if id == "c12worker" {
        std::process::exit(vh::c12::worker_main());
    }
    if id == "c16client" {
        let p = |i: usize| args[i].parse::<u64>().unwrap_or(0);
        std::process::exit(vh::c16::client_main(&args[2], &args[3], p(4), p(5) as usize));
    }
    if id == "c16addr" {
        let p = |i: usize| args[i].parse::<u64>().unwrap_or(0);
        std::process::exit(vh::c16::addr_main(p(2), p(3) as usize));
    }
    if id == "stdio" {
        std::process::exit(vh::c16::stdio_main());
    }
    if id == "overlay" {
        std::process::exit(vh::overlay::main(&args[2], args.get(3).and_then(|s| s.parse().ok()).unwrap_or(50)));
    }
    if id == "serve" {
        std::process::exit(vh::c06::serve(&args[2]));
    }
    let tier = match args[2].as_str() {
        "quick" => Tier::Quick,
        "thorough" => Tier::Thorough,
        t => {
            eprintln!("bad tier {}", t);
            std::process::exit(3);
        }
    };
    let seed: u64 = std::env::var("VERIF_SEED").ok().and_then(|s| s.parse().ok()).unwrap_or(1);
    let replay = args.iter().position(|a| a == "--replay").and_then(|i| args.get(i + 1)).cloned();
    let level = match id {
        "C06" => "fault_enumeration",
        _ => "exploration",
    };
    let mut ctx = Ctx::new(id, tier, seed, level);
    let code = if let Some(p) = &replay {
        ctx.replay_mode = true;
        let w = load_witness(p);
        match id {
            "C01" | "C04" => vh::c01::replay(&ctx, id, &w),
            "C02" => vh::c02::replay(&ctx, &w, std::env::var("VERIF_REPO_BIN").ok()),
            "C03" => vh::c03::replay(&ctx, &w),
            "C05" => vh::c05::replay(&ctx, &w),
            "C06" => vh::c06::replay(&ctx, &w),
            "C07" => vh::c07::replay(&ctx, &w),
            "C08" => vh::c08::replay(&ctx, &w),
            "C09" => vh::gen::c09_replay(&ctx, &w),
            "C10" => vh::c10::replay(&ctx, &w),
            "C11" => vh::c11::replay(&ctx, &w),
            "C12" => vh::c12::replay(&ctx, &w),
            "C13" => vh::c13::replay(&ctx, &w),
            "C14" => vh::c14::replay(&ctx, &w),
            "C15" => vh::c15::replay(&ctx, &w),
            "C17" => vh::c17::replay(&ctx, &w),
            _ => {
                eprintln!("no replay for {}", id);
                std::process::exit(3);
            }
        }
        ctx.finish(0)
    } else {
        match id {
            "C01" | "C04" => vh::c01::main(&ctx, id),
            "C02" => vh::c02::main(&ctx, std::env::var("VERIF_REPO_BIN").ok()),
            "C03" => vh::c03::main(&ctx),
            "C05" => vh::c05::main(&ctx),
            "C06" => vh::c06::main(&ctx),
            "C07" => vh::c07::main(&ctx),
            "C08" => vh::c08::main(&ctx),
            "C09" => vh::gen::c09_main(&ctx, std::env::var("VERIF_REPO_BIN").ok()),
            "C10" => vh::c10::main(&ctx, std::env::var("VERIF_REPO_BIN").ok()),
            "C11" => vh::c11::main(&ctx),
            "C12" => vh::c12::main(&ctx),
            "C13" => vh::c13::main(&ctx),
            "C14" => vh::c14::main(&ctx),
            "C15" => vh::c15::main(&ctx),
            "C17" => vh::c17::main(&ctx),
            _ => {
                eprintln!("unknown property {}", id);
                3
            }
        }
    };
    std::process::exit(code);
}
