//! C10: formatting an interface definition preserves it and is idempotent.
use crate::core::*;
use crate::idl::*;
use serde_json::{json, Value};
use std::convert::TryFrom;
use varlink_parser::{Format, FormatColored, IDL};

pub fn strip_ansi(s: &str) -> String {
    // remove ESC [ ... m sequences
    let cs: Vec<char> = s.chars().collect();
    let mut out = String::new();
    let mut i = 0;
    while i < cs.len() {
        if cs[i] == '\u{1b}' && i + 1 < cs.len() && cs[i + 1] == '[' {
            let mut j = i + 2;
            while j < cs.len() && (cs[j].is_ascii_digit() || cs[j] == ';') {
                j += 1;
            }
            if j < cs.len() && cs[j] == 'm' {
                i = j + 1;
                continue;
            }
        }
        out.push(cs[i]);
        i += 1;
    }
    out
}

/// Judge one (definition text, width). Returns the plain rendering (for threshold counting).
pub fn judge(ctx: &Ctx, text: &str, width: usize, count_case: bool) -> Option<String> {
    let wit = |m: String, extra: Value| json!({"engine": "c10", "text": text, "width": width, "message": m, "detail": extra});
    let r = std::panic::catch_unwind(|| -> Result<(String, String, String, usize), (String, String, Value)> {
        let d = IDL::try_from(text).map_err(|e| ("harness:input-rejected".to_string(), format!("{}", e), Value::Null))?;
        let orig = from_impl(&d);
        let f = d.get_multiline(0, width);
        let fc = d.get_multiline_colored(0, width);
        let disp = d.to_string();
        let d2 = match IDL::try_from(f.as_str()) {
            Ok(x) => x,
            Err(e) => return Err(("c10:formatted-text-does-not-parse".into(), format!("{}", e), json!({ "formatted": f }))),
        };
        let again = from_impl(&d2);
        if let Some(df) = diff(&orig, &again) {
            return Err(("c10:definition-changed-by-formatting".into(), df, json!({ "formatted": f })));
        }
        // ... and to the definition the SOURCE TEXT denotes (read by the reference recogniser), not
        // only to what the parser made of it: a member the parser swallowed is not preserved
        if let Bracket::MustAccept(want) = bracket(text) {
            if want.duplicates().is_empty() {
                if let Some(df) = diff(&by_kind(&want), &again) {
                    return Err(("c10:formatted-text-differs-from-the-source-definition".into(), df, json!({ "formatted": f })));
                }
            }
        }
        let f2 = d2.get_multiline(0, width);
        if f2 != f {
            return Err(("c10:not-idempotent".into(), "formatting the formatted text again gives a different text".into(), json!({"first": f, "second": f2})));
        }
        // escape characters that legitimately appear in the output: those inside the attached
        // documentation comments (kept verbatim); comments elsewhere are dropped by the formatter
        let doc_esc: usize = orig.comments.iter().chain(orig.members.iter().flat_map(|m| m.comments.iter())).map(|c| c.matches('\u{1b}').count()).sum();
        Ok((f, fc, disp, doc_esc))
    });
    match r {
        Err(_) => {
            ctx.case(Some(hash_of(&(text, width))));
            ctx.violation("c10:panic", wit("panic while formatting".into(), Value::Null));
            None
        }
        Ok(Err((sig, m, extra))) => {
            if sig.starts_with("harness") {
                ctx.inconclusive(json!({"harness": "generated definition rejected by the parser (C11's business)", "text": text, "error": m}));
                return None;
            }
            ctx.case(Some(hash_of(&(text, width))));
            ctx.violation(&sig, wit(m, extra));
            None
        }
        Ok(Ok((f, fc, disp, doc_esc))) => {
            if f.matches('\u{1b}').count() != doc_esc {
                // the plain rendering is plain whatever the process-wide colour settings are
                // (forced on here, and other threads render coloured text at the same time)
                ctx.violation("c10:plain-rendering-contains-escape-sequences", wit("get_multiline() returned text with escape sequences that are not in the source (comments may contain some; they are kept verbatim)".into(), json!({"plain": f})));
            } else if strip_ansi(&fc) != strip_ansi(&f) {
                ctx.violation("c10:colored-differs-from-plain", wit("the colored rendering differs from the plain one by more than escape sequences".into(), json!({"plain": f, "colored": fc})));
            } else if width == 80 && disp != f {
                ctx.violation("c10:display-differs-from-multiline-80", wit("to_string() != get_multiline(0, 80)".into(), json!({"display": disp, "multiline": f})));
            }
            if fc.contains('\u{1b}') {
                ctx.count("colored_renderings_with_escapes", 1);
            }
            if !count_case {
                ctx.case(None);
            }
            Some(f)
        }
    }
}

pub fn widths() -> Vec<usize> {
    let mut w: Vec<usize> = (0..=200).collect();
    w.extend([1000, 65_535, usize::MAX]);
    w
}

pub fn main(ctx: &Ctx, repo_bin_dir: Option<String>) -> i32 {
    ctx.set_rule("grammar-directed definitions (all type constructors nested <=3, docs with arbitrary Unicode/ESC bytes, keyword-like names) rendered with three trivia levels (every whitespace code point, all five line-ending conventions, comments inside structs) x every width 0..200 plus 1000, 65535, usize::MAX; the CLI `varlink format` is compared with the in-process rendering on a sample; distinct = (definition, width); non-trivial = the rendering at this width differs from the one at width-1 (a fit/no-fit threshold is crossed) or the definition has documentation");
    ctx.assume("re-parsing uses the parser under test (its correctness is C11's business); member order is compared per kind, the only order the public IDL fields expose");
    ctx.assume("escape sequences are stripped from both renderings before comparing, because comments may legally contain ESC bytes");
    // colours are forced on for the whole process, through the environment as well as through
    // the override: what the plain renderings return must not depend on either
    std::env::set_var("CLICOLOR_FORCE", "1");
    colored::control::set_override(true);
    let ndefs = ctx.tier.pick(300usize, 60_000usize);
    let ws = widths();
    let nw = workers();
    par(nw, |w| {
        let mut rng = Rng::lane(ctx.seed, 1000 + w as u64);
        let mut cfg = GenCfg::parser();
        let mut i = w;
        while i < ndefs {
            cfg.max_depth = 1 + i % 3;
            // one definition in 25 is big (tens to hundreds of members of interleaved kinds):
            // what keeps the order of declaration must do so at every size
            cfg.max_members = if i % 25 == 7 { *rng.pick(&[33usize, 40, 48, 64, 100, 130, 300]) } else { 7 };
            let idl = gen_idl(&mut rng, &cfg);
            if idl.members.len() >= 33 {
                ctx.count("definitions_with_33_or_more_members", 1);
            }
            let text = render(&idl, &mut rng, i % 3);
            let has_docs = !idl.comments.is_empty() || idl.members.iter().any(|m| !m.comments.is_empty());
            let mut prev: Option<String> = None;
            for &wd in &ws {
                let f = judge(ctx, &text, wd, true);
                if let Some(f) = f {
                    let crossed = prev.as_ref().map(|p| p != &f).unwrap_or(false);
                    if crossed {
                        ctx.count("layout_thresholds_crossed", 1);
                    }
                    ctx.case(if crossed || has_docs { Some(hash_of(&(hash_of(&text), wd))) } else { None });
                    prev = Some(f);
                } else {
                    break;
                }
            }
            if i % 97 == 0 || ctx.want_sample() {
                ctx.sample(json!({"definition": text, "widths": "0..200, 1000, 65535, usize::MAX"}));
            }
            i += nw;
        }
    });
    // CLI: `varlink format -c <width> FILE` must print the in-process rendering + newline
    if let Some(dir) = repo_bin_dir {
        let bin = format!("{}/varlink", dir);
        let n = ctx.tier.pick(40usize, 500usize);
        let tmp = crate::sock::run_dir();
        let mut rng = Rng::lane(ctx.seed, 1099);
        for i in 0..n {
            let idl = gen_idl(&mut rng, &GenCfg::parser());
            let text = render(&idl, &mut rng, i % 3);
            let wd = *rng.pick(&[0usize, 20, 40, 60, 79, 80, 81, 100, 200]);
            let p = tmp.join(format!("d{}.varlink", i));
            std::fs::write(&p, &text).unwrap();
            let expect = match IDL::try_from(text.as_str()) {
                Ok(d) => d.get_multiline(0, wd),
                Err(_) => continue,
            };
            for color in ["off", "on"] {
                let out = std::process::Command::new(&bin).args(["--color", color, "format", "-c", &wd.to_string()]).arg(&p).output();
                match out {
                    Err(e) => ctx.inconclusive(json!({"cli": e.to_string()})),
                    Ok(o) => {
                        ctx.count("cli_runs", 1);
                        ctx.case(Some(hash_of(&(hash_of(&text), wd, color))));
                        let so = String::from_utf8_lossy(&o.stdout).to_string();
                        let cmp = if color == "on" { strip_ansi(&so) } else { so.clone() };
                        let want = if color == "on" { strip_ansi(&expect) } else { expect.clone() };
                        if !o.status.success() || cmp != format!("{}\n", want) {
                            ctx.violation(
                                &format!("c10:cli-format-differs:color-{}", color),
                                json!({"engine": "c10", "text": text, "width": wd, "message": format!("`varlink --color {} format -c {}` exit {:?} output differs from get_multiline", color, wd, o.status.code()), "stdout": so, "expected": expect, "stderr": String::from_utf8_lossy(&o.stderr)}),
                            );
                        }
                    }
                }
            }
        }
        let _ = std::fs::remove_dir_all(&tmp);
    }
    ctx.finish(ctx.tier.pick(20_000, 1_000_000))
}

pub fn replay(ctx: &Ctx, w: &Value) {
    // colours are forced on for the whole process, through the environment as well as through
    // the override: what the plain renderings return must not depend on either
    std::env::set_var("CLICOLOR_FORCE", "1");
    colored::control::set_override(true);
    let text = w.get("text").and_then(|v| v.as_str()).unwrap_or("");
    let width = w.get("width").and_then(|v| v.as_u64()).unwrap_or(80) as usize;
    judge(ctx, text, width, true);
}
