//! S1 request alphabet, S2 reference model of the standard service, S4 frame checker.
//! Nothing in here calls varlink code: expectations are written from the property
//! statements and the varlink wire specification.
use crate::core::Rng;
use crate::svc;
use serde_json::{json, Value};

#[derive(Clone, Copy, Debug, PartialEq, Eq, Hash)]
pub enum Kind {
    GetInfo,
    DescKnown,
    DescSvc,
    DescUnknown,
    DescNoParams,
    SvcUnknownMethod,
    Echo,
    Fail,
    Stream0,
    Stream2,
    StreamRaw2,
    GenAdd,
    GenNop,
    GenAddOverflow,
    GenAddBadType,
    GenAddMissing,
    GenAddNoParams,
    UnknownIface,
    UnknownMethodHand,
    UnknownMethodGen,
    NoDot,
}

pub const ALL_KINDS: &[Kind] = &[
    Kind::GetInfo,
    Kind::DescKnown,
    Kind::DescSvc,
    Kind::DescUnknown,
    Kind::DescNoParams,
    Kind::SvcUnknownMethod,
    Kind::Echo,
    Kind::Fail,
    Kind::Stream0,
    Kind::Stream2,
    Kind::StreamRaw2,
    Kind::GenAdd,
    Kind::GenNop,
    Kind::GenAddOverflow,
    Kind::GenAddBadType,
    Kind::GenAddMissing,
    Kind::GenAddNoParams,
    Kind::UnknownIface,
    Kind::UnknownMethodHand,
    Kind::UnknownMethodGen,
    Kind::NoDot,
];

/// Reduced alphabet for exhaustive enumeration (one representative per behaviour class that
/// the statement distinguishes): built-in, succeed, fail, stream, unknown interface, unknown
/// method, no dot, bad parameters (reply + close), bad parameters (reply, stay open).
pub const CORE_KINDS: &[Kind] = &[
    Kind::GetInfo,
    Kind::DescUnknown,
    Kind::Echo,
    Kind::Fail,
    Kind::Stream2,
    Kind::GenAdd,
    Kind::GenAddBadType,
    Kind::GenAddNoParams,
    Kind::UnknownIface,
    Kind::UnknownMethodGen,
    Kind::NoDot,
];

#[derive(Clone, Copy, Debug, PartialEq, Eq, Hash)]
pub struct Flags {
    pub more: bool,
    pub oneway: bool,
}
pub const ALL_FLAGS: &[Flags] = &[
    Flags { more: false, oneway: false },
    Flags { more: true, oneway: false },
    Flags { more: false, oneway: true },
    Flags { more: true, oneway: true },
];

#[derive(Clone, Debug, PartialEq, Eq, Hash)]
pub struct Req {
    pub kind: Kind,
    pub flags: Flags,
    pub token: String,
    /// explicit `false` for unset flags instead of omitting them (wire-equivalent)
    pub explicit_false: bool,
    /// extra (ignored) `pad` member of this many bytes in the parameters: a well-formed request
    /// larger than any internal buffer
    pub pad: usize,
}

impl Req {
    pub fn new(kind: Kind, flags: Flags, token: &str) -> Req {
        Req { kind, flags, token: token.to_string(), explicit_false: false, pad: 0 }
    }
    pub fn method(&self) -> String {
        let t = &self.token;
        match self.kind {
            Kind::GetInfo => "org.varlink.service.GetInfo".into(),
            Kind::DescKnown | Kind::DescSvc | Kind::DescUnknown | Kind::DescNoParams => {
                "org.varlink.service.GetInterfaceDescription".into()
            }
            Kind::SvcUnknownMethod => format!("org.varlink.service.Nope{}", t),
            Kind::Echo => "org.verif.t.Echo".into(),
            Kind::Fail => "org.verif.t.Fail".into(),
            Kind::Stream0 | Kind::Stream2 => "org.verif.t.Stream".into(),
            Kind::StreamRaw2 => "org.verif.t.StreamRaw".into(),
            Kind::GenAdd | Kind::GenAddOverflow | Kind::GenAddBadType | Kind::GenAddMissing | Kind::GenAddNoParams => {
                "org.verif.gen.Add".into()
            }
            Kind::GenNop => "org.verif.gen.Nop".into(),
            Kind::UnknownIface => format!("org.nope.t{}.X", t),
            Kind::UnknownMethodHand => format!("org.verif.t.Nope{}", t),
            Kind::UnknownMethodGen => format!("org.verif.gen.Nope{}", t),
            Kind::NoDot => format!("nodot{}", t),
        }
    }
    pub fn params(&self) -> Option<Value> {
        let t = &self.token;
        match self.kind {
            Kind::GetInfo | Kind::DescNoParams | Kind::GenAddNoParams | Kind::GenNop => None,
            Kind::DescKnown => Some(json!({"interface": "org.verif.t"})),
            Kind::DescSvc => Some(json!({"interface": "org.varlink.service"})),
            Kind::DescUnknown => Some(json!({ "interface": format!("org.unknown.t{}", t) })),
            Kind::SvcUnknownMethod | Kind::UnknownIface | Kind::UnknownMethodHand | Kind::UnknownMethodGen | Kind::NoDot => {
                Some(json!({ "token": t }))
            }
            Kind::Echo | Kind::Fail => Some(json!({ "token": t })),
            Kind::Stream0 => Some(json!({"n": 0, "token": t})),
            Kind::Stream2 | Kind::StreamRaw2 => Some(json!({"n": 2, "token": t})),
            Kind::GenAdd => Some(json!({"a": 40, "b": 2, "token": t})),
            Kind::GenAddOverflow => Some(json!({"a": i64::MAX, "b": 1, "token": t})),
            Kind::GenAddBadType => Some(json!({"a": "forty", "b": 2, "token": t})),
            Kind::GenAddMissing => Some(json!({"a": 1, "token": t})),
        }
    }
    pub fn to_value(&self) -> Value {
        let mut m = serde_json::Map::new();
        m.insert("method".into(), json!(self.method()));
        if let Some(mut p) = self.params() {
            if self.pad > 0 {
                if let Some(o) = p.as_object_mut() {
                    o.insert("pad".into(), json!("p".repeat(self.pad)));
                }
            }
            m.insert("parameters".into(), p);
        }
        if self.flags.more {
            m.insert("more".into(), json!(true));
        } else if self.explicit_false {
            m.insert("more".into(), json!(false));
        }
        if self.flags.oneway {
            m.insert("oneway".into(), json!(true));
        } else if self.explicit_false {
            m.insert("oneway".into(), json!(false));
        }
        Value::Object(m)
    }
    pub fn to_bytes(&self) -> Vec<u8> {
        let mut b = serde_json::to_vec(&self.to_value()).unwrap();
        b.push(0);
        b
    }
    pub fn describe(&self) -> String {
        format!(
            "{:?}{}{}#{}",
            self.kind,
            if self.flags.more { "+more" } else { "" },
            if self.flags.oneway { "+oneway" } else { "" },
            self.token
        )
    }
}

/// What a frame must look like. `Exact` compares the normalised frame with the value;
/// `ErrorNamed` only requires an error reply with that name (parameters unspecified by the
/// statements); `AnyError` requires some error reply (statement silent on which).
#[derive(Clone, Debug)]
pub enum FrameSpec {
    Exact(Value),
    GetInfo,
    ErrorNamed(&'static str),
    AnyError,
    /// any frame that carries this (unique) token
    Mentions(String),
}

#[derive(Clone, Debug)]
pub struct Expect {
    /// continues frames (each must carry continues:true) then the final frame (last entry)
    pub frames: Vec<FrameSpec>,
    /// the service may (but need not) close the connection after the final reply
    pub may_close_after: bool,
}

fn err(name: &str, params: Value) -> FrameSpec {
    FrameSpec::Exact(json!({"error": name, "parameters": params}))
}

/// Reference model: what the standard service must answer to a NON-oneway request.
pub fn expect(r: &Req) -> Expect {
    let t = &r.token;
    let one = |f: FrameSpec| Expect { frames: vec![f], may_close_after: false };
    match r.kind {
        Kind::GetInfo => one(FrameSpec::GetInfo),
        Kind::DescKnown => one(FrameSpec::Exact(json!({"parameters": {"description": svc::T_DESC}}))),
        Kind::DescSvc => one(FrameSpec::Exact(json!({"parameters": {"description": SERVICE_DESC}}))),
        Kind::DescUnknown => one(FrameSpec::ErrorNamed("org.varlink.service.InvalidParameter")),
        Kind::DescNoParams => one(FrameSpec::ErrorNamed("org.varlink.service.InvalidParameter")),
        Kind::SvcUnknownMethod | Kind::UnknownMethodHand | Kind::UnknownMethodGen => {
            one(err("org.varlink.service.MethodNotFound", json!({ "method": r.method() })))
        }
        Kind::Echo => one(FrameSpec::Exact(json!({"parameters": {"token": t}}))),
        Kind::Fail => one(err("org.verif.t.Failed", json!({ "token": t }))),
        Kind::Stream0 | Kind::Stream2 => {
            let n = if r.kind == Kind::Stream0 { 0 } else { 2 };
            if r.flags.more {
                let mut f = Vec::new();
                for i in 0..n {
                    f.push(FrameSpec::Exact(json!({"continues": true, "parameters": {"i": i, "token": t}})));
                }
                f.push(FrameSpec::Exact(json!({"parameters": {"i": n, "token": t}})));
                Expect { frames: f, may_close_after: false }
            } else {
                one(err("org.verif.t.NeedMore", json!({ "token": t })))
            }
        }
        Kind::StreamRaw2 => {
            // a streaming handler that does not look at the `more` flag itself: with `more` it
            // streams; without, its first reply is refused by the library (continues needs
            // more), the handler gives up and the connection is closed with the request
            // unanswered. The model is lenient on purpose: ONE final frame for this request
            // would still be "exactly one final reply"; a second one cannot be attributed.
            if r.flags.more {
                let mut f = Vec::new();
                for i in 0..2 {
                    f.push(FrameSpec::Exact(json!({"continues": true, "parameters": {"i": i, "token": t}})));
                }
                f.push(FrameSpec::Exact(json!({"parameters": {"i": 2, "token": t}})));
                Expect { frames: f, may_close_after: false }
            } else {
                Expect { frames: vec![FrameSpec::Mentions(t.clone())], may_close_after: true }
            }
        }
        Kind::GenAdd => one(FrameSpec::Exact(json!({"parameters": {"sum": 42, "token": t}}))),
        Kind::GenNop => one(FrameSpec::Exact(json!({"parameters": {}}))),
        Kind::GenAddOverflow => one(err("org.verif.gen.Overflow", json!({ "token": t }))),
        Kind::GenAddBadType | Kind::GenAddMissing => Expect {
            frames: vec![FrameSpec::ErrorNamed("org.varlink.service.InvalidParameter")],
            may_close_after: true,
        },
        Kind::GenAddNoParams => one(FrameSpec::ErrorNamed("org.varlink.service.InvalidParameter")),
        Kind::UnknownIface => one(err("org.varlink.service.InterfaceNotFound", json!({ "interface": format!("org.nope.t{}", t) }))),
        Kind::NoDot => one(FrameSpec::AnyError),
    }
}

pub const SERVICE_DESC: &str = r#"# The Varlink Service Interface is provided by every varlink service. It
# describes the service and the interfaces it implements.
interface org.varlink.service

# Get a list of all the interfaces a service provides and information
# about the implementation.
method GetInfo() -> (
  vendor: string,
  product: string,
  version: string,
  url: string,
  interfaces: []string
)

# Get the description of an interface that is implemented by this service.
method GetInterfaceDescription(interface: string) -> (description: string)

# The requested interface was not found.
error InterfaceNotFound (interface: string)

# The requested method was not found
error MethodNotFound (method: string)

# The interface defines the requested method, but the service does not
# implement it.
error MethodNotImplemented (method: string)

# One of the passed parameters is invalid.
error InvalidParameter (parameter: string)
"#;

/// Normalise a reply frame: `continues:false` ≡ absent; absent parameters ≡ `{}`;
/// null-valued members dropped at top level.
pub fn normalise(mut v: Value) -> Value {
    if let Some(o) = v.as_object_mut() {
        if o.get("continues") == Some(&Value::Bool(false)) || o.get("continues") == Some(&Value::Null) {
            o.remove("continues");
        }
        if o.get("error") == Some(&Value::Null) {
            o.remove("error");
        }
        match o.get("parameters") {
            None | Some(Value::Null) => {
                o.insert("parameters".into(), json!({}));
            }
            _ => {}
        }
    }
    v
}

pub fn is_continues(v: &Value) -> bool {
    v.get("continues") == Some(&Value::Bool(true))
}

/// Does `frame` satisfy `spec` (ignoring the continues member, which the aligner checks)?
pub fn frame_matches(frame: &Value, spec: &FrameSpec, registered: &[&str]) -> Result<(), String> {
    let f = normalise(frame.clone());
    match spec {
        FrameSpec::Exact(e) => {
            let e = normalise(e.clone());
            if f == e {
                Ok(())
            } else {
                Err(format!("expected {} got {}", e, f))
            }
        }
        FrameSpec::ErrorNamed(n) => {
            if f.get("error").and_then(|x| x.as_str()) == Some(n) {
                Ok(())
            } else {
                Err(format!("expected error {} got {}", n, f))
            }
        }
        FrameSpec::Mentions(tok) => {
            if f.to_string().contains(tok.as_str()) {
                Ok(())
            } else {
                Err(format!("frame {} does not carry the request's token {:?}", f, tok))
            }
        }
        FrameSpec::AnyError => {
            if f.get("error").map(|x| x.is_string()).unwrap_or(false) {
                Ok(())
            } else {
                Err(format!("expected an error reply got {}", f))
            }
        }
        FrameSpec::GetInfo => check_getinfo(&f, svc::VENDOR, svc::PRODUCT, svc::VERSION, svc::URL, registered),
    }
}

pub fn check_getinfo(f: &Value, vendor: &str, product: &str, version: &str, url: &str, registered: &[&str]) -> Result<(), String> {
    if f.get("error").is_some() || is_continues(f) {
        return Err(format!("GetInfo answered with {}", f));
    }
    let p = f.get("parameters").cloned().unwrap_or(Value::Null);
    let want = [("vendor", vendor), ("product", product), ("version", version), ("url", url)];
    for (k, v) in want {
        if p.get(k).and_then(|x| x.as_str()) != Some(v) {
            return Err(format!("GetInfo {} != {:?}: {}", k, v, p));
        }
    }
    let ifs: Vec<String> = match p.get("interfaces").and_then(|x| x.as_array()) {
        Some(a) => a.iter().map(|x| x.as_str().unwrap_or("<non-string>").to_string()).collect(),
        None => return Err(format!("GetInfo without interfaces: {}", p)),
    };
    if ifs.first().map(|s| s.as_str()) != Some("org.varlink.service") {
        return Err(format!("GetInfo first interface is not org.varlink.service: {:?}", ifs));
    }
    let mut rest: Vec<&str> = ifs[1..].iter().map(|s| s.as_str()).collect();
    rest.sort();
    let mut want: Vec<&str> = registered.to_vec();
    want.sort();
    if rest != want {
        return Err(format!("GetInfo interfaces {:?} != registered {:?}", rest, want));
    }
    let extra: Vec<&String> = p.as_object().map(|o| o.keys().filter(|k| !["vendor", "product", "version", "url", "interfaces"].contains(&k.as_str())).collect()).unwrap_or_default();
    if !extra.is_empty() {
        return Err(format!("GetInfo has extra members {:?}", extra));
    }
    Ok(())
}

pub const STD_REGISTERED: &[&str] = &["org.verif.t", "org.verif.gen"];

/// Split reply bytes at NUL. Returns (frames, trailing bytes without NUL).
pub fn split_frames(out: &[u8]) -> (Vec<&[u8]>, &[u8]) {
    let mut frames = Vec::new();
    let mut start = 0;
    for (i, &b) in out.iter().enumerate() {
        if b == 0 {
            frames.push(&out[start..i]);
            start = i + 1;
        }
    }
    (frames, &out[start..])
}

#[derive(Debug, Default, Clone)]
pub struct AlignReport {
    /// requests (index) that received their final reply
    pub answered: usize,
    /// reply frames that answered a oneway request (C04's concern, skipped by C01)
    pub oneway_frames: Vec<(usize, Value)>,
    /// index of the first request left without a final reply (None if all were answered)
    pub first_unanswered: Option<usize>,
    pub frames_total: usize,
}

/// S4: align reply frames to requests, in order. `closed`: the connection was closed by the
/// service after the bytes in `out` (so a missing tail of replies is legitimate).
/// Returns Err((sig, message)) on a C01-type violation.
pub fn align(reqs: &[Req], out: &[u8], closed: bool, registered: &[&str]) -> Result<AlignReport, (String, String)> {
    let (frames, trailing) = split_frames(out);
    let mut rep = AlignReport { frames_total: frames.len(), ..Default::default() };
    if !trailing.is_empty() {
        return Err(("wire:partial-frame".into(), format!("reply stream ends in a partial frame: {}", crate::core::show(trailing))));
    }
    let mut parsed = Vec::new();
    for (k, f) in frames.iter().enumerate() {
        match serde_json::from_slice::<Value>(f) {
            Ok(v) if v.is_object() => parsed.push(v),
            _ => return Err(("wire:bad-frame".into(), format!("reply frame {} is not a JSON object: {}", k, crate::core::show(f)))),
        }
    }
    let mut fi = 0;
    for (ri, r) in reqs.iter().enumerate() {
        if r.flags.oneway {
            // C04: a frame here that answers this oneway request is skipped and reported
            // separately; it is recognised by matching what the non-oneway form would get.
            let e = expect(r);
            let mut k = fi;
            let mut matched = 0;
            for (j, spec) in e.frames.iter().enumerate() {
                if k >= parsed.len() {
                    break;
                }
                let last = j + 1 == e.frames.len();
                let token_ok = mentions(&parsed[k], &r.token) || r.token.is_empty();
                if frame_matches(&parsed[k], spec, registered).is_ok() && token_ok && (is_continues(&parsed[k]) != last) {
                    k += 1;
                    matched += 1;
                } else {
                    break;
                }
            }
            // Only skip when the whole expected reply group is present and carries this
            // request's unique token (token-free kinds are attributed by C04's own counting).
            if matched == e.frames.len() && kind_has_token(r.kind) {
                for j in fi..k {
                    rep.oneway_frames.push((ri, parsed[j].clone()));
                }
                fi = k;
            }
            continue;
        }
        let e = expect(r);
        let n = e.frames.len();
        for (j, spec) in e.frames.iter().enumerate() {
            let last = j + 1 == n;
            if fi >= parsed.len() {
                if closed {
                    rep.first_unanswered = Some(ri);
                    return Ok(rep);
                }
                return Err((
                    format!("c01:unanswered:{:?}", r.kind),
                    format!("request {} ({}) has no {} reply while the connection stayed open", ri, r.describe(), if last { "final" } else { "continues" }),
                ));
            }
            let f = &parsed[fi];
            if let Err(m) = frame_matches(f, spec, registered) {
                return Err((format!("c01:misattributed:{:?}", r.kind), format!("frame {} cannot be attributed to request {} ({}): {}", fi, ri, r.describe(), m)));
            }
            if is_continues(f) == last {
                return Err((
                    format!("c01:continues-flag:{:?}", r.kind),
                    format!("frame {} for request {} ({}) has continues={} at position {}/{}", fi, ri, r.describe(), is_continues(f), j + 1, n),
                ));
            }
            if is_continues(f) && !r.flags.more {
                return Err((format!("c01:continues-without-more:{:?}", r.kind), format!("frame {} continues for request {} without more", fi, ri)));
            }
            fi += 1;
        }
        rep.answered += 1;
    }
    if fi < parsed.len() {
        return Err(("c01:extra-frames".into(), format!("{} reply frame(s) beyond the last request, first: {}", parsed.len() - fi, parsed[fi])));
    }
    Ok(rep)
}

pub fn kind_has_token(k: Kind) -> bool {
    !matches!(k, Kind::GetInfo | Kind::DescKnown | Kind::DescSvc | Kind::DescNoParams | Kind::GenAddNoParams | Kind::GenNop | Kind::GenAddBadType | Kind::GenAddMissing)
}

fn mentions(v: &Value, token: &str) -> bool {
    v.to_string().contains(token)
}

/// Random request sequence of the given length over `kinds`, unique tokens `<prefix><i>`.
pub fn random_seq(rng: &mut Rng, kinds: &[Kind], len: usize, prefix: &str, oneway_pct: usize) -> Vec<Req> {
    (0..len)
        .map(|i| {
            let k = *rng.pick(kinds);
            let more = rng.chance(1, 3);
            let oneway = rng.below(100) < oneway_pct;
            let mut r = Req::new(k, Flags { more, oneway }, &format!("{}{}", prefix, i));
            r.explicit_false = rng.chance(1, 8);
            if rng.chance(1, 60) {
                // sizes around the thresholds an implementation might have: read buffers (8 KiB,
                // 64 KiB) and "reasonable message" limits (1 MiB, 4 MiB)
                r.pad = if rng.chance(1, 12) { *rng.pick(&[1_100_000usize, 4_300_000]) } else { *rng.pick(&[8_000usize, 9_000, 66_000, 200_000]) };
            }
            r
        })
        .collect()
}

pub fn seq_bytes(reqs: &[Req]) -> Vec<u8> {
    let mut v = Vec::new();
    for r in reqs {
        v.extend(r.to_bytes());
    }
    v
}

/// Parse a reply stream into frames, canonicalised so that runs against different service
/// instances are comparable: the order of GetInfo's interface list after the first entry is
/// not specified (it is a hash-map order), so it is sorted.
pub fn canon_frames(out: &[u8]) -> Vec<Value> {
    let (frames, trailing) = split_frames(out);
    let mut v: Vec<Value> = frames
        .iter()
        .map(|f| match serde_json::from_slice::<Value>(f) {
            Ok(mut x) => {
                if let Some(a) = x.get_mut("parameters").and_then(|p| p.get_mut("interfaces")).and_then(|i| i.as_array_mut()) {
                    if a.len() > 2 {
                        a[1..].sort_by_key(|x| x.to_string());
                    }
                }
                x
            }
            Err(_) => json!({ "unparsable": crate::core::show(f) }),
        })
        .collect();
    if !trailing.is_empty() {
        v.push(json!({ "partial": crate::core::show(trailing) }));
    }
    v
}


// ------------------------------------------------------------------ respelling (same JSON, other text)

fn respell_ws(out: &mut Vec<u8>, rng: &mut Rng) {
    for _ in 0..[0usize, 0, 0, 1, 1, 2][rng.below(6)] {
        out.push(*rng.pick(&[b' ', b'\t', b'\n', b'\r']));
    }
}

fn respell_string(out: &mut Vec<u8>, s: &str, rng: &mut Rng) {
    out.push(b'"');
    for c in s.chars() {
        let plain = serde_json::to_string(&c.to_string()).unwrap();
        let plain = &plain[1..plain.len() - 1];
        if c.is_ascii_alphanumeric() && rng.chance(1, 8) {
            out.extend_from_slice(format!("\\u{:04x}", c as u32).as_bytes());
        } else if c == '/' && rng.chance(1, 2) {
            out.extend_from_slice(b"\\/");
        } else {
            out.extend_from_slice(plain.as_bytes());
        }
    }
    out.push(b'"');
}

fn respell_value(out: &mut Vec<u8>, v: &Value, rng: &mut Rng) {
    match v {
        Value::Object(m) => {
            out.push(b'{');
            let mut keys: Vec<&String> = m.keys().collect();
            // random member order
            for i in (1..keys.len()).rev() {
                keys.swap(i, rng.below(i + 1));
            }
            for (i, k) in keys.iter().enumerate() {
                if i > 0 {
                    out.push(b',');
                }
                respell_ws(out, rng);
                respell_string(out, k, rng);
                respell_ws(out, rng);
                out.push(b':');
                respell_ws(out, rng);
                respell_value(out, &m[*k], rng);
                respell_ws(out, rng);
            }
            if keys.is_empty() {
                respell_ws(out, rng);
            }
            out.push(b'}');
        }
        Value::Array(a) => {
            out.push(b'[');
            for (i, x) in a.iter().enumerate() {
                if i > 0 {
                    out.push(b',');
                }
                respell_ws(out, rng);
                respell_value(out, x, rng);
                respell_ws(out, rng);
            }
            out.push(b']');
        }
        Value::String(s) => respell_string(out, s, rng),
        other => out.extend_from_slice(other.to_string().as_bytes()),
    }
}

/// The same NUL-framed JSON messages written differently: other member order, blanks / tabs /
/// line ends between tokens (also before the NUL), `\uXXXX` escapes for plain characters.
/// Messages that do not parse are copied unchanged.
pub fn respell_stream(stream: &[u8], rng: &mut Rng) -> Vec<u8> {
    let mut out = Vec::new();
    let mut rest = stream;
    while let Some(p) = rest.iter().position(|b| *b == 0) {
        let (m, r) = rest.split_at(p);
        rest = &r[1..];
        match serde_json::from_slice::<Value>(m) {
            Ok(v) => {
                respell_ws(&mut out, rng);
                respell_value(&mut out, &v, rng);
                respell_ws(&mut out, rng);
            }
            Err(_) => out.extend_from_slice(m),
        }
        out.push(0);
    }
    out.extend_from_slice(rest);
    out
}

/// One value in another spelling (see `respell_stream`).
pub fn respell_text(v: &Value, rng: &mut Rng) -> String {
    let mut out = Vec::new();
    respell_ws(&mut out, rng);
    respell_value(&mut out, v, rng);
    respell_ws(&mut out, rng);
    String::from_utf8(out).unwrap()
}
