//! C16 helper subcommands (the check itself is orchestrated by py/c16.py):
//!   vh c16client <memory|address|activate|bridge> <arg> <seed> <nseq>
//!   vh c16addr  <seed> <n>       address-scheme rejection, in process
//!   vh stdio                     the standard service on stdin/stdout
use crate::core::*;
use crate::drive::*;
use crate::model::*;
use crate::svc::*;
use serde_json::{json, Value};
use std::io::{BufRead, Write};
use varlink::{Connection, ConnectionHandler};

pub fn sequences(seed: u64, n: usize) -> Vec<Vec<Req>> {
    let mut rng = Rng::new(seed);
    (0..n)
        .map(|i| {
            let len = if i < 6 { i + 1 } else { rng.range(2, 12) };
            random_seq(&mut rng, ALL_KINDS, len, &format!("s{}_", i), 12)
        })
        .collect()
}

fn report_req() -> Vec<u8> {
    b"{\"method\":\"org.verif.env.Report\"}\0".to_vec()
}

/// Send `bytes` + sentinel through the connection's public reader/writer, read frames until the
/// sentinel's reply or EOF.
fn exchange(conn: &std::sync::Arc<std::sync::RwLock<Connection>>, bytes: &[u8], sentinel: &str) -> Result<(Vec<u8>, bool), String> {
    let mut c = conn.write().unwrap();
    let mut w = c.writer.take().ok_or("no writer")?;
    let mut r = c.reader.take().ok_or("no reader")?;
    let mut all = bytes.to_vec();
    all.extend(Req::new(Kind::Echo, Flags { more: false, oneway: false }, sentinel).to_bytes());
    // write in a thread so that large reply streams cannot deadlock against our writes
    let wt = std::thread::spawn(move || {
        let _ = w.write_all(&all);
        let _ = w.flush();
        w
    });
    let mut out = Vec::new();
    let marker = format!("\"{}\"", sentinel);
    let mut closed = false;
    loop {
        let mut buf = Vec::new();
        match r.read_until(0, &mut buf) {
            Ok(0) => {
                closed = true;
                break;
            }
            Ok(_) => {
                let is_sent = String::from_utf8_lossy(&buf).contains(&marker);
                out.extend_from_slice(&buf);
                if buf.last() != Some(&0) {
                    closed = true;
                    break;
                }
                if is_sent {
                    break;
                }
            }
            // the service closed while our pipelined requests were still unread on its side:
            // the kernel reports that as a reset instead of EOF (after delivering what was queued)
            Err(e) if e.kind() == std::io::ErrorKind::ConnectionReset || e.kind() == std::io::ErrorKind::BrokenPipe => {
                closed = true;
                break;
            }
            Err(e) => return Err(format!("read: {}", e)),
        }
    }
    let w = wt.join().map_err(|_| "writer thread panicked")?;
    c.writer = Some(w);
    c.reader = Some(r);
    Ok((out, closed))
}

pub fn client_main(mode: &str, arg: &str, seed: u64, nseq: usize) -> i32 {
    let seqs = sequences(seed, nseq);
    let mut results: Vec<Value> = Vec::new();
    let mut report = Value::Null;
    let mut child_pid = Value::Null;
    let mut address = Value::Null;
    for (i, reqs) in seqs.iter().enumerate() {
        let bytes = seq_bytes(reqs);
        let sentinel = format!("SENT{}", i);
        if mode == "memory" {
            let svc = process_service();
            let mut all = bytes.clone();
            all.extend(Req::new(Kind::Echo, Flags { more: false, oneway: false }, &sentinel).to_bytes());
            let run = run_whole(&svc, &all, None);
            results.push(json!({"frames": canon_frames(&run.out), "closed": run.closed.is_some()}));
            continue;
        }
        let conn = match mode {
            "address" => Connection::with_address(arg),
            "activate" => Connection::with_activate(arg),
            "bridge" => Connection::with_bridge(arg),
            _ => return 3,
        };
        let conn = match conn {
            Ok(c) => c,
            Err(e) => {
                results.push(json!({"error": format!("constructor: {:?}", e.kind())}));
                continue;
            }
        };
        if i == 0 {
            // self-report of the service (activation environment) + what the client knows
            {
                let c = conn.read().unwrap();
                child_pid = json!(c.child.as_ref().map(|ch| ch.id()));
                address = json!(c.address());
            }
            if let Ok((out, _)) = exchange(&conn, &report_req(), "REPORT") {
                report = canon_frames(&out).into_iter().next().unwrap_or(Value::Null);
            }
            // keep the child alive a moment longer for the /proc cross-check done by the parent
            println!("C16EARLY {}", json!({"child_pid": child_pid, "address": address, "report": report}));
            let _ = std::io::stdout().flush();
            if std::env::var("C16_HOLD").is_ok() {
                std::thread::sleep(std::time::Duration::from_millis(300));
            }
        }
        match exchange(&conn, &bytes, &sentinel) {
            Ok((out, closed)) => results.push(json!({"frames": canon_frames(&out), "closed": closed})),
            Err(e) => results.push(json!({ "error": e })),
        }
        // the activated/bridged child exits when its connection goes away
        let child = conn.write().unwrap().child.take();
        drop(conn);
        if let Some(mut ch) = child {
            // a bridged child ends with its stdin; an activated service has no reason to exit
            let t0 = std::time::Instant::now();
            let grace = if mode == "bridge" { 5000 } else { 0 };
            loop {
                match ch.try_wait() {
                    Ok(Some(_)) => break,
                    Ok(None) if t0.elapsed() >= std::time::Duration::from_millis(grace) => {
                        let _ = ch.kill();
                        let _ = ch.wait();
                        break;
                    }
                    Ok(None) => std::thread::sleep(std::time::Duration::from_millis(2)),
                    Err(_) => break,
                }
            }
        }
    }
    let descr: Vec<Vec<String>> = seqs.iter().map(|s| s.iter().map(|r| r.describe()).collect()).collect();
    println!("C16RESULT {}", json!({"mode": mode, "results": results, "sequences": descr, "report": report, "child_pid": child_pid, "address": address}));
    0
}

/// Address strings from a scheme/garbage generator through the three entry points.
pub fn addr_main(seed: u64, n: usize) -> i32 {
    let mut rng = Rng::new(seed);
    let schemes = ["", "unix", "unix;", "UNIX:", "Unix:", "tcp", "TCP:", "tcp;", "http:", "https://", "ssh://", "exec:", "device:", "udp:", "unix :", " unix:", "tcp :", "file:", "vsock:", "unix@", ":", "::", "@", "/", "unixx:", "ttcp:", "tcp6:", "abstract:", "pipe:"];
    let tails = ["", "/tmp/x", "@abstract", "127.0.0.1:1", "localhost:80", "/run/org.example;mode=0600", "x", "\u{0}", "ü", "unix:/tmp/x", "tcp:127.0.0.1:1"];
    let mut cases: Vec<Value> = Vec::new();
    let mut all: Vec<String> = Vec::new();
    for s in schemes {
        for t in tails {
            all.push(format!("{}{}", s, t));
        }
    }
    for _ in 0..n {
        let len = rng.below(12);
        let pool: Vec<char> = "unixtcp:@/;.0123456789 -_UNIXTCPü\\".chars().collect();
        all.push((0..len).map(|_| *rng.pick(&pool)).collect());
    }
    for a in all {
        let supported = a.starts_with("unix:") || a.starts_with("tcp:");
        if supported {
            // supported schemes may fail for other reasons (nothing listens there); not judged
            continue;
        }
        let kind = |e: &varlink::Error| format!("{:?}", e.kind());
        let r1 = match varlink::varlink_connect(&a) {
            Ok(_) => "Ok".to_string(),
            Err(e) => kind(&e),
        };
        let r2 = match Connection::with_address(&a) {
            Ok(_) => "Ok".to_string(),
            Err(e) => kind(&e),
        };
        let r3 = match varlink::Listener::new(&a) {
            Ok(_) => "Ok".to_string(),
            Err(e) => kind(&e),
        };
        cases.push(json!({"address": a, "varlink_connect": r1, "with_address": r2, "listener_new": r3}));
    }
    println!("C16ADDR {}", Value::Array(cases));
    0
}

/// `vh stdio`: the standard service speaking varlink on stdin/stdout (bridge target).
pub fn stdio_main() -> i32 {
    let svc = process_service();
    let stdin = std::io::stdin();
    let mut r = std::io::BufReader::new(stdin.lock());
    let stdout = std::io::stdout();
    let mut w = stdout.lock();
    let mut iface: Option<String> = None;
    loop {
        match svc.handle(&mut r, &mut w, iface.clone()) {
            Ok((_, i)) => {
                iface = i;
                match r.fill_buf() {
                    Ok([]) | Err(_) => return 0,
                    _ => {}
                }
            }
            Err(_) => return 0,
        }
    }
}
