//! C06: malformed or hostile input is contained (fault enumeration).
use crate::core::*;
use crate::drive::*;
use crate::model::*;
use crate::sock::*;
use crate::svc::*;
use serde_json::{json, Value};
use std::process::{Child, Command, Stdio};
use std::time::Duration;

#[derive(Debug, PartialEq, Clone, Copy)]
enum Class {
    WellFormed,
    Malformed,
    /// duplicate top-level keys, or nesting near a parser's recursion limit: outcome judged by
    /// containment only
    Unspecified,
}

/// Independent classification of one message (without the NUL).
fn classify(msg: &[u8]) -> Class {
    let s = match std::str::from_utf8(msg) {
        Ok(s) => s,
        Err(_) => return Class::Malformed,
    };
    if nesting_depth(s) > 100 {
        return Class::Unspecified;
    }
    let v: Value = match serde_json::from_str(s) {
        Ok(v) => v,
        Err(_) => {
            // grammatically valid JSON that a value parser refuses (number out of range):
            // whether that is "invalid JSON" is not for this oracle to decide
            return if serde_json::from_str::<serde::de::IgnoredAny>(s).is_ok() { Class::Unspecified } else { Class::Malformed };
        }
    };
    let o = match v.as_object() {
        Some(o) => o,
        None => return Class::Malformed,
    };
    if has_duplicate_top_level_keys(s) {
        return Class::Unspecified;
    }
    match o.get("method") {
        Some(Value::String(_)) => {}
        _ => return Class::Malformed,
    }
    for k in ["more", "oneway", "upgrade"] {
        match o.get(k) {
            None | Some(Value::Bool(_)) | Some(Value::Null) => {}
            _ => return Class::Malformed,
        }
    }
    Class::WellFormed
}

fn nesting_depth(s: &str) -> usize {
    let (mut d, mut m) = (0usize, 0usize);
    let mut in_str = false;
    let mut esc = false;
    for c in s.bytes() {
        if in_str {
            if esc {
                esc = false;
            } else if c == b'\\' {
                esc = true;
            } else if c == b'"' {
                in_str = false;
            }
            continue;
        }
        match c {
            b'"' => in_str = true,
            b'[' | b'{' => {
                d += 1;
                m = m.max(d);
            }
            b']' | b'}' => d = d.saturating_sub(1),
            _ => {}
        }
    }
    m
}

fn has_duplicate_top_level_keys(s: &str) -> bool {
    use serde::de::{Deserializer, MapAccess, Visitor};
    struct V;
    impl<'de> Visitor<'de> for V {
        type Value = bool;
        fn expecting(&self, f: &mut std::fmt::Formatter) -> std::fmt::Result {
            f.write_str("map")
        }
        fn visit_map<A: MapAccess<'de>>(self, mut a: A) -> Result<bool, A::Error> {
            let mut seen = std::collections::HashSet::new();
            let mut dup = false;
            while let Some(k) = a.next_key::<String>()? {
                let _: serde::de::IgnoredAny = a.next_value()?;
                if !seen.insert(k) {
                    dup = true;
                }
            }
            Ok(dup)
        }
    }
    let mut de = serde_json::Deserializer::from_str(s);
    de.deserialize_map(V).unwrap_or(false)
}

fn corpus(rng: &mut Rng) -> Vec<Vec<Req>> {
    let mut v = Vec::new();
    for &k in ALL_KINDS {
        v.push(vec![Req::new(k, Flags { more: false, oneway: false }, "c")]);
    }
    for i in 0..20 {
        let len = 2 + i % 4;
        // the per-position operators below run the whole stream once per position and operator: a
        // corpus stream with a megabyte pad (random_seq draws one now and then; seed 4 did) turned the
        // quick tier into an hour of single-threaded work. Big messages have their own family
        // ("oversized-*" in structured()), so the corpus keeps its pads at read-buffer size.
        let mut s = random_seq(rng, ALL_KINDS, len, "m", 10);
        for r in s.iter_mut() {
            r.pad = r.pad.min(9_000);
        }
        v.push(s);
    }
    v
}

/// Mutation operators. Each returns the mutated stream and a short operator name.
fn mutate(stream: &[u8], op: usize, pos: usize, rng: &mut Rng) -> (Vec<u8>, String) {
    let mut s = stream.to_vec();
    let n = s.len();
    let pos = pos % n.max(1);
    match op {
        0 => {
            s.truncate(pos);
            (s, "truncate".into())
        }
        1 => {
            let bit = rng.below(8);
            s[pos] ^= 1 << bit;
            (s, format!("bitflip{}", bit))
        }
        2 => {
            s.remove(pos);
            (s, "delete".into())
        }
        3 => {
            let b = s[pos];
            s.insert(pos, b);
            (s, "duplicate".into())
        }
        4 => {
            s.insert(pos, 0);
            (s, "insert-nul".into())
        }
        5 => {
            let bad: &[&[u8]] = &[&[0xff], &[0x80], &[0xc0, 0xaf], &[0xed, 0xa0, 0x80], &[0xf8, 0x88, 0x80, 0x80, 0x80], &[0xc3]];
            let b = rng.pick(bad);
            for (i, x) in b.iter().enumerate() {
                s.insert(pos + i, *x);
            }
            (s, "insert-invalid-utf8".into())
        }
        6 => {
            // swap two bytes
            let q = rng.below(n);
            s.swap(pos, q);
            (s, "swap".into())
        }
        _ => {
            let junk: &[&[u8]] = &[b"{", b"}", b"[", b"\"", b",", b":", b"\\", b"null", b"\x01", b"\n"];
            let j = rng.pick(junk);
            for (i, x) in j.iter().enumerate() {
                s.insert(pos + i, *x);
            }
            (s, "insert-token".into())
        }
    }
}

/// Structured mutations on the JSON of one request of the sequence.
fn structured(reqs: &[Req], rng: &mut Rng) -> (Vec<u8>, String) {
    let i = rng.below(reqs.len());
    let mut out = Vec::new();
    let mut name = String::new();
    for (j, r) in reqs.iter().enumerate() {
        if j != i {
            out.extend(r.to_bytes());
            continue;
        }
        let mut v = r.to_value();
        let alts = [json!(null), json!(true), json!(7), json!(-1.5), json!("str"), json!([1]), json!({"a": 1})];
        let op = rng.below(9);
        match op {
            0 => {
                v["method"] = rng.pick(&alts[..4]).clone();
                name = "method-retyped".into();
            }
            1 => {
                v.as_object_mut().unwrap().remove("method");
                name = "method-removed".into();
            }
            2 => {
                let k = *rng.pick(&["more", "oneway", "upgrade"]);
                v[k] = rng.pick(&alts[2..]).clone();
                name = format!("{}-retyped", k);
            }
            3 => {
                v["parameters"] = rng.pick(&alts).clone();
                name = "parameters-retyped".into();
            }
            4 => {
                let d = *rng.pick(&[1usize, 2, 4, 16, 64, 127, 128, 129, 500, 10_000]);
                let mut s = String::new();
                for _ in 0..d {
                    s.push_str(if rng.chance(1, 2) { "[" } else { "{\"a\":" });
                }
                s.push('1');
                // closers intentionally only valid for the all-array variant half of the time
                let txt = format!("{{\"method\":\"org.verif.t.Echo\",\"parameters\":{}", s);
                out.extend_from_slice(txt.as_bytes());
                out.push(0);
                name = format!("nest-unclosed-{}", d);
                continue;
            }
            5 => {
                let d = *rng.pick(&[1usize, 2, 4, 16, 64, 120, 127, 128, 129, 500, 10_000]);
                let txt = format!("{{\"method\":\"org.verif.t.Echo\",\"parameters\":{{\"token\":{}1{}}}}}", "[".repeat(d), "]".repeat(d));
                out.extend_from_slice(txt.as_bytes());
                out.push(0);
                name = format!("nest-balanced-{}", d);
                continue;
            }
            6 => {
                out.push(0);
                name = "empty-message".into();
                continue;
            }
            7 => {
                v = rng.pick(&alts).clone();
                name = "message-not-an-object".into();
            }
            _ => {
                // well-formed but very large: sizes around plausible caps (64 KiB, 1 MiB, 4 MiB)
                let sz = *rng.pick(&[70_000usize, 1 << 20, (1 << 20) + 7, 4_194_304 - 100, 4_194_304 + 4096, 5 << 20]);
                v["parameters"] = json!({"token": r.token, "pad": "p".repeat(sz)});
                name = format!("oversized-{}", sz);
            }
        }
        out.extend(serde_json::to_vec(&v).unwrap());
        out.push(0);
    }
    (out, name)
}

fn messages(stream: &[u8]) -> (Vec<&[u8]>, &[u8]) {
    split_frames(stream)
}

struct Verdict {
    sig: Option<(String, String)>,
    first_bad: Option<usize>,
    prefix_out: Vec<u8>,
    unspecified: bool,
}

/// Judge one in-memory execution of a (possibly) hostile stream.
fn judge(svc: &varlink::VarlinkService, stream: &[u8]) -> Verdict {
    let (msgs, _tail) = messages(stream);
    let classes: Vec<Class> = msgs.iter().map(|m| classify(m)).collect();
    let first_bad = classes.iter().position(|c| *c != Class::WellFormed);
    let unspecified = first_bad.map(|i| classes[i] == Class::Unspecified).unwrap_or(false);
    let run = run_whole(svc, stream, None);
    if let Some(p) = &run.panicked {
        return Verdict { sig: Some(("c06:panic".into(), format!("handle() panicked: {}", p))), first_bad, prefix_out: vec![], unspecified };
    }
    let mut prefix = Vec::new();
    if let Some(j) = first_bad {
        for m in &msgs[..j] {
            prefix.extend_from_slice(m);
            prefix.push(0);
        }
    }
    let mut v = Verdict { sig: None, first_bad, prefix_out: vec![], unspecified };
    if let Some(j) = first_bad {
        let base = run_whole(svc, &prefix, None);
        v.prefix_out = base.out.clone();
        if unspecified {
            // containment only (no panic, checked above): the service may treat the message as
            // well-formed and carry on, or close; there is no independent expectation
            return v;
        }
        if base.closed.is_some() {
            // a well-formed message before the malformed one already closed the connection
            if run.out != base.out {
                v.sig = Some(("c06:prefix-replies-differ".into(), format!("replies {} != {} (prefix closes by itself)", show(&run.out), show(&base.out))));
            }
            return v;
        }
        if run.out != base.out {
            let sig = if run.out.len() > base.out.len() && run.out.starts_with(&base.out) { "c06:reply-emitted-for-malformed-message" } else { "c06:well-formed-prefix-not-answered" };
            v.sig = Some((sig.into(), format!("message {} is malformed; replies {} != replies to the well-formed prefix {}", j, show(&run.out), show(&base.out))));
            return v;
        }
        if run.closed.is_none() {
            v.sig = Some(("c06:connection-left-open-after-malformed".into(), format!("message {} is malformed but handle() returned Ok", j)));
        }
    }
    v
}

fn mem_case(ctx: &Ctx, svc: &varlink::VarlinkService, orig: &[u8], mutated: &[u8], opname: &str, desc: &str) {
    let v = judge(svc, mutated);
    let differs = mutated != orig;
    let nontrivial = differs && (v.first_bad.map(|j| j > 0).unwrap_or(false) || mutated.contains(&0));
    ctx.case(if nontrivial { Some(hash_of(&(hash_of(mutated), opname))) } else { None });
    match v.first_bad {
        None => ctx.count("mutants_still_well_formed", 1),
        Some(_) if v.unspecified => ctx.count("skipped_unspecified", 1),
        Some(_) => ctx.count("malformed_messages_observed", 1),
    }
    if let Some((sig, msg)) = v.sig {
        ctx.violation(&format!("{}:{}", sig, opname.split(|c: char| c.is_ascii_digit()).next().unwrap_or(opname).trim_end_matches('-')), json!({"engine": "c06", "transport": "memory", "operator": opname, "corpus": desc, "stream_hex": hex(&mutated[..mutated.len().min(20000)]), "stream": show(mutated), "message": msg}));
    }
}

pub fn run_memory(ctx: &Ctx) {
    let nw = workers();
    let mut crng = Rng::new(ctx.seed);
    let corp = corpus(&mut crng);
    let per_pos_ops = 8;
    par(nw, |w| {
        let svc = standard_service(SvcCfg::default());
        let mut rng = Rng::lane(ctx.seed, 600 + w as u64);
        for (ci, reqs) in corp.iter().enumerate() {
            if ci % nw != w {
                continue;
            }
            let orig = seq_bytes(reqs);
            let desc = format!("{:?}", reqs.iter().map(|r| r.describe()).collect::<Vec<_>>());
            let stride = if ctx.tier == Tier::Quick && orig.len() > 150 { 3 } else { 1 };
            let stride = stride.max(orig.len() / ctx.tier.pick(2_000, 12_000));
            let mut pos = 0;
            while pos < orig.len() {
                for op in 0..per_pos_ops {
                    let reps = if op == 1 && ctx.tier == Tier::Thorough { 8 } else { 1 };
                    for _ in 0..reps {
                        let (m, name) = mutate(&orig, op, pos, &mut rng);
                        mem_case(ctx, &svc, &orig, &m, &name, &desc);
                    }
                }
                pos += stride;
            }
            for _ in 0..ctx.tier.pick(60, 6000) {
                let (m, name) = structured(reqs, &mut rng);
                mem_case(ctx, &svc, &orig, &m, &name, &desc);
            }
            if ci % 5 == 0 || ctx.want_sample() {
                let (m, name) = mutate(&orig, 5, orig.len() / 2, &mut rng);
                ctx.sample(json!({"corpus": desc, "operator": name, "mutated": show(&m)}));
            }
        }
        // random byte strings
        for _ in 0..ctx.tier.pick(2000, 60_000) {
            let n = rng.below(200);
            let mut b: Vec<u8> = (0..n).map(|_| (rng.next() & 0xff) as u8).collect();
            if rng.chance(1, 2) {
                b.push(0);
            }
            mem_case(ctx, &svc, &[], &b, "random-bytes", "-");
        }
        // malformed messages whose length sits at the sizes an implementation might cut, copy or cap
        // at (excerpts in diagnostics, read buffers), filled with multi-byte characters at every
        // alignment, or with one invalid byte near such an offset (seeded C06-r10: the excerpt kept in
        // the error value is cut at byte 256 of the lossily decoded text - inside a character)
        if w == 0 {
            let fills: [&str; 5] = ["\u{e9}", "\u{20ac}", "\u{1d11e}", "a\u{e9}\u{20ac}\u{1f600}", "x"];
            for &len in &[31usize, 63, 64, 127, 128, 255, 256, 257, 258, 259, 511, 512, 1023, 1024, 1025, 4095, 4096, 4097, 8191, 8192, 8193, 65535, 65536] {
                for shift in 0..4usize {
                    for (fi, fill) in fills.iter().enumerate() {
                        let mut b: Vec<u8> = "{".repeat(shift).into_bytes();
                        while b.len() < len + shift {
                            b.extend_from_slice(fill.as_bytes());
                        }
                        if fi == 4 {
                            // ASCII with one invalid byte at an offset near the size
                            let at = (len.saturating_sub(3) + shift).min(b.len() - 1);
                            b[at] = 0xff;
                        }
                        b.push(0);
                        let mut stream = seq_bytes(&[Req::new(ALL_KINDS[0], Flags { more: false, oneway: false }, "b")]);
                        let orig = stream.clone();
                        stream.extend_from_slice(&b);
                        mem_case(ctx, &svc, &orig, &stream, "garbage-at-size-boundary", "-");
                    }
                }
            }
        }
    });
}

pub struct ChildServer {
    pub child: Child,
    pub address: String,
    pub dir: std::path::PathBuf,
}
impl ChildServer {
    pub fn start() -> Result<ChildServer, String> {
        ChildServer::start_with(None, false)
    }
    /// `address`: None = a fresh unix path; `process_service`: the standard service with the
    /// line-protocol upgrade handler (what C13's rounds speak after an upgrade).
    pub fn start_with(address: Option<String>, process_service: bool) -> Result<ChildServer, String> {
        let dir = run_dir();
        let address = address.unwrap_or_else(|| format!("unix:{}/s", dir.display()));
        let exe = std::env::current_exe().map_err(|e| e.to_string())?;
        let mut cmd = Command::new(exe);
        cmd.arg("serve").arg(&address).stdin(Stdio::null()).stdout(Stdio::null()).stderr(Stdio::null());
        cmd.env_remove("VH_PROCESS_SERVICE");
        if process_service {
            cmd.env("VH_UPMODE", "line");
        } else {
            cmd.env_remove("VH_UPMODE");
        }
        let child = cmd.spawn().map_err(|e| e.to_string())?;
        let cs = ChildServer { child, address, dir };
        let t0 = std::time::Instant::now();
        loop {
            if RawConn::connect(&cs.address).is_ok() {
                return Ok(cs);
            }
            if t0.elapsed() > Duration::from_secs(10) {
                return Err("child server not ready".into());
            }
            std::thread::sleep(Duration::from_millis(5));
        }
    }
    pub fn alive(&mut self) -> Result<(), String> {
        match self.child.try_wait() {
            Ok(None) => Ok(()),
            Ok(Some(st)) => Err(format!("server process exited: {:?}", st)),
            Err(e) => Err(e.to_string()),
        }
    }
}
impl Drop for ChildServer {
    fn drop(&mut self) {
        let _ = self.child.kill();
        let _ = self.child.wait();
        let _ = std::fs::remove_dir_all(&self.dir);
    }
}

/// Healthy neighbour: pipelines a random sequence and checks it with the C01 aligner.
fn healthy(address: &str, rng: &mut Rng, tag: &str) -> Result<usize, String> {
    let reqs = random_seq(rng, &[Kind::Echo, Kind::GetInfo, Kind::Fail, Kind::Stream2, Kind::GenAdd, Kind::UnknownIface, Kind::NoDot], rng.clone().range(3, 10), tag, 10);
    let sr = crate::c01::run_socket(address, &reqs, reqs.len(), rng, true, &format!("{}S", tag));
    if let Some(w) = sr.inconclusive {
        return Err(format!("inconclusive: {}", w));
    }
    let mut all = reqs.clone();
    all.push(Req::new(Kind::Echo, Flags { more: false, oneway: false }, &format!("{}S", tag)));
    all.extend(sr.extra_sentinels.iter().cloned());
    match align(&all, &sr.out, sr.closed, STD_REGISTERED) {
        Ok(rep) if sr.closed && rep.first_unanswered.is_some() => Err(format!("healthy connection closed by the server before request {:?}", rep.first_unanswered)),
        Ok(rep) => Ok(rep.frames_total),
        Err((sig, m)) => Err(format!("{}: {}", sig, m)),
    }
}

pub fn run_listen(ctx: &Ctx) {
    let n = ctx.tier.pick(500usize, 20_000usize);
    let mut server = match ChildServer::start() {
        Ok(s) => s,
        Err(e) => {
            ctx.inconclusive(json!({ "child_server": e }));
            return;
        }
    };
    let mut crng = Rng::new(ctx.seed ^ 77);
    let corp = corpus(&mut crng);
    let refsvc = standard_service(SvcCfg::default());
    let mut rng = Rng::lane(ctx.seed, 700);
    let mut i = 0;
    while i < n {
        let batch = 8.min(n - i);
        // a batch of faulty connections, each beside a healthy neighbour
        let cases: Vec<(Vec<u8>, String, String, u64)> = (0..batch)
            .map(|_| {
                let reqs = rng.pick(&corp).clone();
                let orig = seq_bytes(&reqs);
                let (m, name) = if rng.chance(1, 3) {
                    structured(&reqs, &mut rng)
                } else {
                    let op = rng.below(8);
                    let pos = rng.below(orig.len());
                    mutate(&orig, op, pos, &mut rng)
                };
                (m, name, format!("{:?}", reqs.iter().map(|r| r.describe()).collect::<Vec<_>>()), rng.next())
            })
            .collect();
        let address = server.address.clone();
        // half of the peers whose stream contains a malformed message do NOT half-close after
        // sending: the service has to close the faulty connection on its own, and completely
        // (a later write by the peer must fail)
        let keep_open: Vec<bool> = cases
            .iter()
            .enumerate()
            .map(|(k, c)| {
                let v = judge(&refsvc, &c.0);
                v.first_bad.is_some() && !v.unspecified && v.sig.is_none() && k % 2 == 0
            })
            .collect();
        let results: Vec<(Result<(Vec<u8>, bool), String>, Result<usize, String>)> = std::thread::scope(|s| {
            let hs: Vec<_> = cases
                .iter()
                .enumerate()
                .map(|(k, (m, _, _, salt))| {
                    let address = address.clone();
                    let m = m.clone();
                    let salt = *salt;
                    let keep = keep_open[k];
                    s.spawn(move || {
                        let mut r2 = Rng::new(salt);
                        let a2 = address.clone();
                        let tag = format!("h{}k{}_", salt % 100000, k);
                        let hh = std::thread::spawn(move || {
                            let mut r3 = Rng::new(salt ^ 5);
                            healthy(&a2, &mut r3, &tag)
                        });
                        let faulty = (|| -> Result<(Vec<u8>, bool), String> {
                            let mut c = RawConn::connect(&address).map_err(|e| e.to_string())?;
                            let k = r2.below(3);
                            let cuts: Vec<usize> = if m.len() > 2 { (0..k).map(|_| r2.range(1, m.len() - 1)).collect::<std::collections::BTreeSet<_>>().into_iter().collect() } else { vec![] };
                            let _ = c.write_segmented(&m, &cuts, r2.below(500) as u64);
                            if !keep {
                                c.shutdown_write();
                                return Ok(c.read_to_eof(Duration::from_secs(20)));
                            }
                            let (out, eof) = c.read_to_eof(Duration::from_secs(20));
                            if !eof {
                                return Ok((out, false));
                            }
                            // EOF seen: the connection must be gone, not merely half-closed
                            for _ in 0..100 {
                                if c.write_all(b" ").is_err() {
                                    return Ok((out, true));
                                }
                                std::thread::sleep(Duration::from_millis(10));
                            }
                            Err("HALF-OPEN: 100 writes over 1 s after the service's EOF all succeeded".into())
                        })();
                        (faulty, hh.join().unwrap_or_else(|_| Err("healthy thread panicked".into())))
                    })
                })
                .collect();
            hs.into_iter().map(|h| h.join().unwrap()).collect()
        });
        for (ci, ((m, name, desc, _), (faulty, neighbour))) in cases.iter().zip(results).enumerate() {
            i += 1;
            let v = judge(&refsvc, m);
            ctx.case(if v.first_bad.is_some() { Some(hash_of(&(hash_of(m), "listen"))) } else { None });
            ctx.count("listen_faulty_connections", 1);
            if keep_open[ci] {
                ctx.count("listen_faulty_peers_that_kept_their_side_open", 1);
            }
            let wit = |msg: String| json!({"engine": "c06", "transport": "listen(child process)", "operator": name, "corpus": desc, "stream_hex": hex(&m[..m.len().min(20000)]), "stream": show(m), "message": msg});
            match faulty {
                Err(e) if e.starts_with("HALF-OPEN") => ctx.violation("c06:listen:faulty-connection-only-half-closed", wit(format!("the peer kept its side open; {}", e))),
                Err(e) => ctx.inconclusive(json!({ "faulty_connect": e })),
                Ok((out, eof)) => {
                    if !eof {
                        ctx.violation("c06:listen:faulty-connection-not-closed", wit("no EOF on the faulty connection 20 s after half-close".into()));
                    } else if let Some((sig, msg)) = &v.sig {
                        // the in-memory judgment of the same stream already failed; reported by the memory half
                        let _ = (sig, msg);
                    } else if v.first_bad.is_some() && !v.unspecified {
                        if canon_frames(&out) != canon_frames(&v.prefix_out) {
                            ctx.violation("c06:listen:replies-differ-from-well-formed-prefix", wit(format!("socket replies {} vs expected {}", show(&out), show(&v.prefix_out))));
                        }
                    }
                }
            }
            match neighbour {
                Ok(fr) => ctx.count("neighbour_reply_frames_observed", fr as u64),
                Err(e) if e.starts_with("inconclusive") => ctx.inconclusive(json!({ "neighbour": e })),
                Err(e) => ctx.violation("c06:listen:healthy-neighbour-affected", wit(format!("concurrent healthy connection: {}", e))),
            }
        }
        if let Err(e) = server.alive() {
            ctx.violation("c06:listen:server-process-died", json!({"engine": "c06", "message": e, "batch": cases.iter().map(|c| show(&c.0)).collect::<Vec<_>>()}));
            server = match ChildServer::start() {
                Ok(s) => s,
                Err(_) => return,
            };
        }
        // a later connection still works
        if i % 64 == 0 {
            if let Err(e) = healthy(&server.address, &mut rng, &format!("later{}_", i)) {
                if !e.starts_with("inconclusive") {
                    ctx.violation("c06:listen:later-connection-affected", json!({"engine": "c06", "message": e}));
                }
            }
        }
    }
}

/// The repository's own service binary (examples/ping under varlink::listen), built with the
/// repository's default debug profile — where recursion costs the most stack — fed the
/// nesting family beside a healthy neighbour.  The harness's own server is an optimised build.
fn run_repo_service(ctx: &Ctx, bin_dir: &str) {
    use std::os::linux::net::SocketAddrExt;
    let name = format!("vh-c06ping-{}", std::process::id());
    let mut child = match Command::new(format!("{}/ping", bin_dir)).arg(format!("--varlink=unix:@{}", name)).stdin(Stdio::null()).stdout(Stdio::null()).stderr(Stdio::null()).spawn() {
        Ok(c) => c,
        Err(e) => return ctx.inconclusive(json!({"repo_service": format!("cannot start ping: {}", e)})),
    };
    let connect = || -> std::io::Result<RawConn> {
        let a = std::os::unix::net::SocketAddr::from_abstract_name(name.as_bytes())?;
        Ok(RawConn::from_unix(std::os::unix::net::UnixStream::connect_addr(&a)?))
    };
    let t0 = std::time::Instant::now();
    while connect().is_err() {
        if t0.elapsed() > Duration::from_secs(20) {
            let _ = child.kill();
            let _ = child.wait();
            return ctx.inconclusive(json!({"repo_service": "ping did not start listening within 20 s"}));
        }
        std::thread::sleep(Duration::from_millis(20));
    }
    let ping = |c: &mut RawConn, tok: &str| -> Result<(), String> {
        c.write_all(format!("{{\"method\":\"org.example.ping.Ping\",\"parameters\":{{\"ping\":\"{}\"}}}}\0", tok).as_bytes()).map_err(|e| format!("write: {}", e))?;
        match c.read_frame(Duration::from_secs(20)) {
            ReadEv::Frame(f) if String::from_utf8_lossy(&f).contains(tok) => Ok(()),
            other => Err(format!("{:?}", other)),
        }
    };
    let depths: &[usize] = &[16, 40, 50, 64, 100, 110, 120, 126, 127, 128, 129, 200, 500, 10_000, 100_000];
    'outer: for &d in depths {
        for (shape, open, close) in [("array", "[", "]"), ("object", "{\"a\":", "}")] {
            for balanced in [true, false] {
                let inner = format!("{}1{}", open.repeat(d), if balanced { close.repeat(d) } else { String::new() });
                let msg = format!("{{\"method\":\"org.example.ping.Ping\",\"parameters\":{{\"ping\":{}}}}}", inner);
                ctx.case(Some(hash_of(&("repo-service-nesting", d, shape, balanced))));
                ctx.count("repo_service_nesting_messages", 1);
                let wit = |m: String| json!({"engine": "c06", "transport": "examples/ping (debug build) under varlink::listen", "operator": format!("nest-{}-{}-{}", shape, if balanced { "balanced" } else { "unclosed" }, d), "message": m});
                let mut neighbour = match connect() {
                    Ok(c) => c,
                    Err(e) => {
                        ctx.violation("c06:listen:later-connection-affected", wit(format!("cannot connect a neighbour: {}", e)));
                        break 'outer;
                    }
                };
                if let Err(e) = ping(&mut neighbour, "before") {
                    ctx.violation("c06:listen:healthy-neighbour-affected", wit(format!("neighbour before the faulty message: {}", e)));
                    break 'outer;
                }
                if let Ok(mut bad) = connect() {
                    let _ = bad.write_all(msg.as_bytes());
                    let _ = bad.write_all(&[0]);
                    bad.shutdown_write();
                    let (out, eof) = bad.read_to_eof(Duration::from_secs(20));
                    // the parameter is not a string: whatever the depth, no success reply may come back
                    if String::from_utf8_lossy(&out).contains("\"pong\"") {
                        ctx.violation("c06:listen:reply-to-malformed-message", wit(format!("reply {}", show(&out))));
                    }
                    if !eof {
                        ctx.violation("c06:listen:faulty-connection-not-closed", wit("no EOF 20 s after half-close".into()));
                    }
                }
                if let Ok(Some(st)) = child.try_wait() {
                    ctx.violation("c06:listen:server-process-died", wit(format!("the service process exited: {:?}", st)));
                    break 'outer;
                }
                if let Err(e) = ping(&mut neighbour, "after") {
                    // the process may be dying: look again before naming the symptom
                    std::thread::sleep(Duration::from_millis(200));
                    if let Ok(Some(st)) = child.try_wait() {
                        ctx.violation("c06:listen:server-process-died", wit(format!("the service process exited: {:?}", st)));
                    } else {
                        ctx.violation("c06:listen:healthy-neighbour-affected", wit(format!("neighbour after the faulty message: {}", e)));
                    }
                    break 'outer;
                }
            }
        }
    }
    let _ = child.kill();
    let _ = child.wait();
}

pub fn main(ctx: &Ctx) -> i32 {
    ctx.set_rule("corpus of 40 valid request streams x every byte position (quick: stride 3 on long streams) x 8 byte-level operators (truncate, bit flip, delete, duplicate, insert NUL, insert invalid UTF-8, swap, insert JSON token) + structured operators (retype/remove method, retype flags/parameters, nest 1..10^4 deep balanced and unclosed, empty message, non-object message, 70 KB / 1 MiB / 4 MiB / 5 MiB message) + random byte strings; in memory and through listen() in a child process beside a healthy pipelining neighbour; the nesting family (16..10^5 deep, arrays/objects, balanced/unclosed) also against the repository's own debug-built examples/ping service; distinct = (mutated stream hash, operator/transport); non-trivial = differs from the original and has a well-formed prefix or a complete message");
    ctx.assume("malformed = not UTF-8 JSON, not an object, no string method, or a non-boolean flag; duplicate top-level keys and nesting deeper than 100 are judged by containment only (skipped_unspecified)");
    ctx.assume("expected output = replies to the well-formed prefix, obtained by running that prefix alone through the same service");
    run_memory(ctx);
    run_listen(ctx);
    match std::env::var("VERIF_REPO_BIN") {
        Ok(d) => run_repo_service(ctx, &d),
        Err(_) => ctx.inconclusive(json!({"repo_service": "VERIF_REPO_BIN not set (the repository's ping binary was not built)"})),
    }
    ctx.finish(ctx.tier.pick(20_000, 500_000))
}

pub fn replay(ctx: &Ctx, w: &Value) {
    let svc = standard_service(SvcCfg::default());
    let m = unhex(w.get("stream_hex").and_then(|v| v.as_str()).unwrap_or(""));
    mem_case(ctx, &svc, &[], &m, w.get("operator").and_then(|v| v.as_str()).unwrap_or("replay"), "replay");
}

/// `vh serve <address>`: the standard service behind listen(), until killed.
pub fn serve(address: &str) -> i32 {
    let svc = if std::env::var("VH_PROCESS_SERVICE").is_ok() {
        process_service()
    } else if std::env::var("VH_UPMODE").map(|v| v == "line").unwrap_or(false) {
        standard_service(SvcCfg { up: UpMode::Line, ..Default::default() })
    } else {
        standard_service(SvcCfg::default())
    };
    let max = std::env::var("VH_MAX_WORKERS").ok().and_then(|v| v.parse().ok()).unwrap_or(200usize);
    match varlink::listen(svc, address, &varlink::ListenConfig { max_worker_threads: max, ..Default::default() }) {
        Ok(()) => 0,
        Err(e) => {
            eprintln!("listen: {:?}", e);
            1
        }
    }
}
