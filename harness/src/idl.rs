//! S5 grammar-directed IDL generator + trivia decorator + token mutator, and S6 the
//! hand-written reference recogniser (strict / liberal bracket) for the varlink interface
//! grammar. Nothing in here uses the peg grammar of the implementation.
use crate::core::Rng;

#[derive(Clone, Debug, PartialEq, Eq, Hash)]
pub enum Ty {
    Bool,
    Int,
    Float,
    Str,
    Object,
    Name(String),
    Struct(Vec<(String, Ty)>),
    Enum(Vec<String>),
    Array(Box<Ty>),
    Dict(Box<Ty>),
    Opt(Box<Ty>),
}

#[derive(Clone, Copy, Debug, PartialEq, Eq, Hash, PartialOrd, Ord)]
pub enum MKind {
    Type,
    Method,
    Error,
}

#[derive(Clone, Debug, PartialEq, Eq, Hash)]
pub struct Member {
    pub kind: MKind,
    pub name: String,
    /// comment lines ("# ..." without the line terminator) in the member's leading trivia
    pub comments: Vec<String>,
    /// Type: the struct or enum; Method: input struct; Error: parameter struct
    pub a: Ty,
    /// Method: output struct
    pub b: Option<Ty>,
}

#[derive(Clone, Debug, PartialEq, Eq, Hash)]
pub struct Idl {
    pub name: String,
    pub comments: Vec<String>,
    pub members: Vec<Member>,
}

impl Idl {
    pub fn names_of(&self, k: MKind) -> Vec<&str> {
        self.members.iter().filter(|m| m.kind == k).map(|m| m.name.as_str()).collect()
    }
    pub fn duplicates(&self) -> Vec<String> {
        let mut seen = std::collections::HashSet::new();
        let mut dups = Vec::new();
        for m in &self.members {
            if !seen.insert(m.name.clone()) && !dups.contains(&m.name) {
                dups.push(m.name.clone());
            }
        }
        dups
    }
}

// ------------------------------------------------------------------ lexical classes

pub const WS: &[char] = &[
    ' ', '\t', '\u{00A0}', '\u{FEFF}', '\u{1680}', '\u{180E}', '\u{2000}', '\u{2001}', '\u{2002}', '\u{2003}', '\u{2004}', '\u{2005}', '\u{2006}', '\u{2007}', '\u{2008}', '\u{2009}',
    '\u{200A}', '\u{202F}', '\u{205F}', '\u{3000}',
];
pub const EOLS: &[&str] = &["\n", "\r\n", "\r", "\u{2028}", "\u{2029}"];

pub fn is_ws(c: char) -> bool {
    WS.contains(&c)
}
fn is_eol_char(c: char) -> bool {
    matches!(c, '\n' | '\r' | '\u{2028}' | '\u{2029}')
}

/// varlink interface name: `[A-Za-z]([-]*[A-Za-z0-9])*(\.[A-Za-z0-9]([-]*[A-Za-z0-9])*)+`
pub fn valid_interface_name(s: &str) -> bool {
    let parts: Vec<&str> = s.split('.').collect();
    if parts.len() < 2 {
        return false;
    }
    for (i, p) in parts.iter().enumerate() {
        let cs: Vec<char> = p.chars().collect();
        if cs.is_empty() {
            return false;
        }
        if !cs.iter().all(|c| c.is_ascii_alphanumeric() || *c == '-') {
            return false;
        }
        let first_ok = if i == 0 { cs[0].is_ascii_alphabetic() } else { cs[0].is_ascii_alphanumeric() };
        if !first_ok || *cs.last().unwrap() == '-' {
            return false;
        }
    }
    true
}
pub fn valid_name(s: &str) -> bool {
    let mut cs = s.chars();
    matches!(cs.next(), Some(c) if c.is_ascii_uppercase()) && cs.all(|c| c.is_ascii_alphanumeric())
}
pub fn valid_field_name(s: &str) -> bool {
    let cs: Vec<char> = s.chars().collect();
    if cs.is_empty() || !cs[0].is_ascii_alphabetic() {
        return false;
    }
    let mut i = 1;
    while i < cs.len() {
        if cs[i] == '_' {
            i += 1;
            if i >= cs.len() || !cs[i].is_ascii_alphanumeric() {
                return false;
            }
        } else if !cs[i].is_ascii_alphanumeric() {
            return false;
        }
        i += 1;
    }
    true
}

// ------------------------------------------------------------------ S6 recogniser

#[derive(Clone, Copy, PartialEq, Debug)]
pub enum Mode {
    /// trivia only where the pinned implementation layout has it: S is a subset of the language
    Strict,
    /// trivia (or none) between any two tokens: L is a superset of the language
    Liberal,
}

struct P<'a> {
    cs: Vec<char>,
    i: usize,
    mode: Mode,
    depth: usize,
    _s: &'a str,
}

type R<T> = Result<T, String>;

impl<'a> P<'a> {
    fn peek(&self) -> Option<char> {
        self.cs.get(self.i).copied()
    }
    fn starts(&self, s: &str) -> bool {
        let t: Vec<char> = s.chars().collect();
        self.cs.len() >= self.i + t.len() && self.cs[self.i..self.i + t.len()] == t[..]
    }
    fn eat(&mut self, s: &str) -> bool {
        if self.starts(s) {
            self.i += s.chars().count();
            true
        } else {
            false
        }
    }
    fn eol_r(&mut self) -> bool {
        self.eat("\r\n") || self.eat("\n") || self.eat("\r") || self.eat("\u{2028}") || self.eat("\u{2029}")
    }
    /// comment at the current position; strict requires the terminating line end
    fn comment(&mut self, out: &mut Vec<String>) -> bool {
        if self.peek() != Some('#') {
            return false;
        }
        let start = self.i;
        let mut j = self.i;
        while j < self.cs.len() && !is_eol_char(self.cs[j]) {
            j += 1;
        }
        let text: String = self.cs[start..j].iter().collect::<String>().trim_end_matches(|c: char| is_ws(c)).to_string();
        let save = self.i;
        self.i = j;
        if self.eol_r() {
            out.push(text);
            true
        } else if self.mode == Mode::Liberal {
            out.push(text);
            true
        } else {
            self.i = save;
            false
        }
    }
    /// wce*: returns number of trivia items consumed
    fn wce_star(&mut self, out: &mut Vec<String>) -> usize {
        let mut n = 0;
        loop {
            match self.peek() {
                Some(c) if is_ws(c) => {
                    self.i += 1;
                    n += 1;
                }
                Some('#') => {
                    if !self.comment(out) {
                        return n;
                    }
                    n += 1;
                }
                Some(c) if is_eol_char(c) => {
                    self.eol_r();
                    n += 1;
                }
                _ => return n,
            }
        }
    }
    fn triv(&mut self) {
        let mut d = Vec::new();
        self.wce_star(&mut d);
    }
    /// separator required by the pinned layout: (ws* eol_r) | comment
    fn eol_strict(&mut self) -> bool {
        let save = self.i;
        while matches!(self.peek(), Some(c) if is_ws(c)) {
            self.i += 1;
        }
        if self.eol_r() {
            return true;
        }
        self.i = save;
        let mut d = Vec::new();
        self.comment(&mut d)
    }
    fn word(&mut self) -> String {
        let start = self.i;
        while matches!(self.peek(), Some(c) if c.is_ascii_alphanumeric() || c == '_') {
            self.i += 1;
        }
        self.cs[start..self.i].iter().collect()
    }
    fn iface_word(&mut self) -> String {
        let start = self.i;
        while matches!(self.peek(), Some(c) if c.is_ascii_alphanumeric() || c == '-' || c == '.') {
            self.i += 1;
        }
        self.cs[start..self.i].iter().collect()
    }

    fn ty(&mut self) -> R<Ty> {
        self.depth += 1;
        if self.depth > 2000 {
            return Err("too deep for the reference recogniser".into());
        }
        let r = self.ty_inner(true);
        self.depth -= 1;
        r
    }
    fn ty_inner(&mut self, allow_opt: bool) -> R<Ty> {
        if self.eat("?") {
            if !allow_opt {
                return Err("'?' directly inside '?'".into());
            }
            // `?` applies to a basic type, an array or a dict — not to another `?`
            let inner = self.ty_inner(false)?;
            return Ok(Ty::Opt(Box::new(inner)));
        }
        if self.eat("[]") {
            return Ok(Ty::Array(Box::new(self.ty()?)));
        }
        if self.eat("[string]") {
            return Ok(Ty::Dict(Box::new(self.ty()?)));
        }
        if self.peek() == Some('(') {
            return self.paren();
        }
        let w = self.word();
        match w.as_str() {
            "bool" => Ok(Ty::Bool),
            "int" => Ok(Ty::Int),
            "float" => Ok(Ty::Float),
            "string" => Ok(Ty::Str),
            "object" => Ok(Ty::Object),
            _ if valid_name(&w) => Ok(Ty::Name(w)),
            _ => Err(format!("bad type word {:?}", w)),
        }
    }
    /// '(' ... ')' : struct or enum
    fn paren(&mut self) -> R<Ty> {
        if !self.eat("(") {
            return Err("expected '('".into());
        }
        self.triv();
        if self.eat(")") {
            return Ok(Ty::Struct(vec![]));
        }
        let first = self.word();
        if !valid_field_name(&first) {
            return Err(format!("bad field name {:?}", first));
        }
        let save = self.i;
        self.triv();
        if self.peek() == Some(':') {
            // struct
            let mut fields = Vec::new();
            let mut name = first;
            loop {
                if !self.eat(":") {
                    return Err("expected ':'".into());
                }
                self.triv();
                let t = self.ty()?;
                fields.push((name, t));
                // after a type: ',' must follow immediately in the pinned layout
                let before = self.i;
                self.triv();
                let had_trivia = self.i != before;
                if self.eat(",") {
                    if had_trivia && self.mode == Mode::Strict {
                        return Err("trivia between a type and ','".into());
                    }
                    self.triv();
                    name = self.word();
                    if !valid_field_name(&name) {
                        return Err(format!("bad field name {:?}", name));
                    }
                    self.triv();
                    continue;
                }
                if self.eat(")") {
                    return Ok(Ty::Struct(fields));
                }
                return Err("expected ',' or ')' in struct".into());
            }
        }
        // enum: in the pinned layout there is no trivia between an element and ','
        self.i = save;
        let mut elts = vec![first];
        loop {
            let before = self.i;
            self.triv();
            let had_trivia = self.i != before;
            if self.eat(",") {
                if had_trivia && self.mode == Mode::Strict {
                    return Err("trivia between an enum element and ','".into());
                }
                self.triv();
                let w = self.word();
                if !valid_field_name(&w) {
                    return Err(format!("bad enum element {:?}", w));
                }
                elts.push(w);
                continue;
            }
            if self.eat(")") {
                return Ok(Ty::Enum(elts));
            }
            return Err("expected ',' or ')' in enum".into());
        }
    }

    fn member(&mut self, comments: Vec<String>) -> R<Member> {
        let kw = self.word();
        let kind = match kw.as_str() {
            "type" => MKind::Type,
            "method" => MKind::Method,
            "error" => MKind::Error,
            _ => return Err(format!("expected a member keyword, got {:?}", kw)),
        };
        let mut d = Vec::new();
        let n = self.wce_star(&mut d);
        if n == 0 && self.mode == Mode::Strict {
            return Err("no trivia after the member keyword".into());
        }
        let name = self.word();
        if !valid_name(&name) {
            return Err(format!("bad member name {:?}", name));
        }
        self.triv();
        let a = self.paren()?;
        match kind {
            MKind::Type => Ok(Member { kind, name, comments, a, b: None }),
            MKind::Error => {
                if !matches!(a, Ty::Struct(_)) {
                    return Err("error parameters must be a struct".into());
                }
                Ok(Member { kind, name, comments, a, b: None })
            }
            MKind::Method => {
                if !matches!(a, Ty::Struct(_)) {
                    return Err("method input must be a struct".into());
                }
                self.triv();
                if !self.eat("->") {
                    return Err("expected '->'".into());
                }
                self.triv();
                let b = self.paren()?;
                if !matches!(b, Ty::Struct(_)) {
                    return Err("method output must be a struct".into());
                }
                Ok(Member { kind, name, comments, a, b: Some(b) })
            }
        }
    }

    fn interface(&mut self) -> R<Idl> {
        let mut comments = Vec::new();
        self.wce_star(&mut comments);
        if self.word() != "interface" {
            return Err("expected 'interface'".into());
        }
        let mut d = Vec::new();
        let n = self.wce_star(&mut d);
        if n == 0 && self.mode == Mode::Strict {
            return Err("no trivia after 'interface'".into());
        }
        let name = self.iface_word();
        if !valid_interface_name(&name) {
            return Err(format!("bad interface name {:?}", name));
        }
        let mut members = Vec::new();
        // separator after the interface name, then members separated by the same
        loop {
            if self.mode == Mode::Strict {
                if !self.eol_strict() {
                    // end of input right after the name / after a member?
                    let mut dd = Vec::new();
                    self.wce_star(&mut dd);
                    if self.i == self.cs.len() && !members.is_empty() {
                        break;
                    }
                    return Err("expected a line end or comment as separator".into());
                }
            }
            let mut c = Vec::new();
            self.wce_star(&mut c);
            if self.i == self.cs.len() {
                break;
            }
            members.push(self.member(c)?);
            if self.i == self.cs.len() {
                break;
            }
        }
        if members.is_empty() {
            // zero members: the grammar's intent is not stated; strict rejects, liberal accepts
            if self.mode == Mode::Strict {
                return Err("no members".into());
            }
        }
        Ok(Idl { name, comments, members })
    }
}

pub fn recognise(text: &str, mode: Mode) -> Result<Idl, String> {
    let mut p = P { cs: text.chars().collect(), i: 0, mode, depth: 0, _s: text };
    let idl = p.interface()?;
    if p.i != p.cs.len() {
        return Err(format!("trailing input at char {}", p.i));
    }
    Ok(idl)
}

#[derive(Debug, Clone, PartialEq)]
pub enum Bracket {
    /// strict accepts: the implementation must accept, with this structure
    MustAccept(Idl),
    /// liberal rejects: the implementation must reject
    MustReject(String),
    /// only the liberal recogniser accepts: trivia placement the statement does not decide
    Unspecified,
}

pub fn bracket(text: &str) -> Bracket {
    match recognise(text, Mode::Strict) {
        Ok(i) => Bracket::MustAccept(i),
        Err(_) => match recognise(text, Mode::Liberal) {
            Ok(_) => Bracket::Unspecified,
            Err(e) => Bracket::MustReject(e),
        },
    }
}

// ------------------------------------------------------------------ conversion from the implementation's IDL

pub fn from_impl_type(t: &varlink_parser::VTypeExt) -> Ty {
    use varlink_parser::{VType, VTypeExt};
    match t {
        VTypeExt::Array(v) => Ty::Array(Box::new(from_impl_type(v))),
        VTypeExt::Dict(v) => Ty::Dict(Box::new(from_impl_type(v))),
        VTypeExt::Option(v) => Ty::Opt(Box::new(from_impl_type(v))),
        VTypeExt::Plain(p) => match p {
            VType::Bool => Ty::Bool,
            VType::Int => Ty::Int,
            VType::Float => Ty::Float,
            VType::String => Ty::Str,
            VType::Object => Ty::Object,
            VType::Typename(n) => Ty::Name(n.to_string()),
            VType::Struct(s) => from_impl_struct(s),
            VType::Enum(e) => Ty::Enum(e.elts.iter().map(|s| s.to_string()).collect()),
        },
    }
}
pub fn from_impl_struct(s: &varlink_parser::VStruct) -> Ty {
    Ty::Struct(s.elts.iter().map(|a| (a.name.to_string(), from_impl_type(&a.vtype))).collect())
}

pub fn comments_of_doc(doc: &str) -> Vec<String> {
    let mut out = Vec::new();
    // the documentation attached to a member is its comment block: it begins at the first '#'
    // and ends with the last comment character, whatever layout characters (every one the
    // grammar knows, U+FEFF and U+180E included) surround the block in the source
    let edge = |c: Option<char>| c.map(|c| is_ws(c) || is_eol_char(c)).unwrap_or(false);
    if edge(doc.chars().next()) || edge(doc.chars().last()) {
        out.push(format!("<documentation block not trimmed: begins with {:?}, ends with {:?}>", doc.chars().next(), doc.chars().last()));
    }
    let mut cur = String::new();
    let flush = |cur: &mut String, out: &mut Vec<String>| {
        // blanks at either end of a comment line are not part of the comment (the
        // implementation trims the documentation block as a whole)
        let t = cur.trim_matches(|c: char| is_ws(c));
        if t.starts_with('#') {
            out.push(t.to_string());
        }
        cur.clear();
    };
    for c in doc.chars() {
        if is_eol_char(c) {
            flush(&mut cur, &mut out);
        } else {
            cur.push(c);
        }
    }
    flush(&mut cur, &mut out);
    out
}

/// The implementation's result in our shape. Members are listed kind by kind (the public IDL
/// fields expose only per-kind order): types, methods, errors.
pub fn from_impl(i: &varlink_parser::IDL) -> Idl {
    let mut members = Vec::new();
    for k in &i.typedef_keys {
        let t = &i.typedefs[k];
        let a = match &t.elt {
            varlink_parser::VStructOrEnum::VStruct(s) => from_impl_struct(s),
            varlink_parser::VStructOrEnum::VEnum(e) => Ty::Enum(e.elts.iter().map(|s| s.to_string()).collect()),
        };
        members.push(Member { kind: MKind::Type, name: t.name.to_string(), comments: comments_of_doc(t.doc), a, b: None });
    }
    for k in &i.method_keys {
        let m = &i.methods[k];
        members.push(Member { kind: MKind::Method, name: m.name.to_string(), comments: comments_of_doc(m.doc), a: from_impl_struct(&m.input), b: Some(from_impl_struct(&m.output)) });
    }
    for k in &i.error_keys {
        let e = &i.errors[k];
        members.push(Member { kind: MKind::Error, name: e.name.to_string(), comments: comments_of_doc(e.doc), a: from_impl_struct(&e.parm), b: None });
    }
    Idl { name: i.name.to_string(), comments: comments_of_doc(i.doc), members }
}

/// Reorder kind by kind (types, methods, errors), keeping the order within each kind.
pub fn by_kind(i: &Idl) -> Idl {
    let mut m = Vec::new();
    for k in [MKind::Type, MKind::Method, MKind::Error] {
        m.extend(i.members.iter().filter(|x| x.kind == k).cloned());
    }
    Idl { name: i.name.clone(), comments: i.comments.clone(), members: m }
}

/// First difference between two definitions (both kind-ordered), or None.
pub fn diff(a: &Idl, b: &Idl) -> Option<String> {
    if a.name != b.name {
        return Some(format!("interface name {:?} vs {:?}", a.name, b.name));
    }
    if a.comments != b.comments {
        return Some(format!("interface doc comments {:?} vs {:?}", a.comments, b.comments));
    }
    for k in [MKind::Type, MKind::Method, MKind::Error] {
        if a.names_of(k) != b.names_of(k) {
            return Some(format!("{:?} names/order {:?} vs {:?}", k, a.names_of(k), b.names_of(k)));
        }
    }
    for (x, y) in a.members.iter().zip(b.members.iter()) {
        if x.comments != y.comments {
            return Some(format!("doc comments of {} {:?} vs {:?}", x.name, x.comments, y.comments));
        }
        if x.a != y.a || x.b != y.b {
            return Some(format!("fields/types of {}: {:?} -> {:?} vs {:?} -> {:?}", x.name, x.a, x.b, y.a, y.b));
        }
    }
    None
}

// ------------------------------------------------------------------ S5 generator

pub const ORD_FIELDS: &[&str] = &["a", "b", "count", "name", "value_1", "x9", "some_field", "Upper", "f_0_1", "z"];
pub const IDL_KW_FIELDS: &[&str] = &["type", "method", "error", "interface", "bool", "int", "float", "string", "object"];
pub const RUST_KW_FIELDS: &[&str] = &[
    "as", "break", "const", "continue", "dyn", "else", "enum", "extern", "false", "fn", "for", "if", "impl", "in", "let", "loop", "match", "mod", "move", "mut", "pub", "ref", "return", "static",
    "struct", "trait", "true", "unsafe", "use", "where", "while", "async", "await", "abstract", "become", "box", "do", "final", "macro", "override", "priv", "try", "typeof", "unsized", "virtual", "yield",
    "union", "gen",
    // path keywords in another letter case are ordinary identifiers (seeded C08-r11 matched them case-insensitively)
    "Super", "Crate", "SUPER", "SELF", "sElf", "CRATE",
];
pub const RAW_FORBIDDEN_FIELDS: &[&str] = &["self", "Self", "super", "crate"];
pub const ORD_NAMES: &[&str] = &["Foo", "Bar", "State", "T1", "Ping", "GetInfo", "X", "LongerTypeName9", "Aa", "Bb", "Cc", "Dd", "Ee", "GetID", "ReadIO", "HTTPServer", "A", "ABC"];
pub const KW_NAMES: &[&str] = &["Type", "Move", "Match", "Fn", "Self", "Box", "Option", "Vec", "String", "Result", "Error", "Struct", "Impl", "Loop", "Mod", "Use", "Async", "Dyn", "Ok", "Some",
    // reserved for future use, and the rest of the strict keywords that may be written raw
    "Abstract", "Become", "Do", "Final", "Macro", "Override", "Priv", "Try", "Typeof", "Unsized", "Virtual", "Yield", "Gen", "Static", "Unsafe", "Where", "While", "As", "Break", "Const", "Continue", "Else", "Enum", "Extern", "False", "For", "If", "In", "Let", "Mut", "Pub", "Ref", "Return", "Trait", "True", "Await"];
pub const IFACE_NAMES: &[&str] = &["org.example.test", "a.b", "com.example-x.y9", "io.A.b-c", "org.varlink.x", "xn--lgbbat1ad8j.example.algeria", "a--1.b--1.c--1", "Com.Example.UPPER", "a.0.0"];

#[derive(Clone, Copy, Debug)]
pub struct GenCfg {
    pub max_depth: usize,
    pub max_members: usize,
    pub max_fields: usize,
    /// use IDL keywords / Rust keywords as field names
    pub keyword_fields: bool,
    /// use Rust-keyword-like member names (Type, Move, ...)
    pub keyword_names: bool,
    /// self / Self / super / crate as field names
    pub raw_forbidden: bool,
    /// references to typedefs (only to previously defined or any defined: resolved after generation)
    pub typerefs: bool,
    pub comments: bool,
    /// typedefs may reference by value only typedefs defined earlier (finitely sized types);
    /// any typedef may be referenced below an array or map
    pub finite: bool,
}
impl GenCfg {
    pub fn parser() -> GenCfg {
        GenCfg { max_depth: 3, max_members: 7, max_fields: 4, keyword_fields: true, keyword_names: true, raw_forbidden: true, typerefs: true, comments: true, finite: false }
    }
}

pub fn gen_field_name(rng: &mut Rng, cfg: &GenCfg, used: &mut Vec<String>) -> String {
    for _ in 0..20 {
        let n = match rng.below(10) {
            0 | 1 if cfg.keyword_fields => rng.pick(IDL_KW_FIELDS).to_string(),
            2 | 3 if cfg.keyword_fields => rng.pick(RUST_KW_FIELDS).to_string(),
            4 if cfg.raw_forbidden => rng.pick(RAW_FORBIDDEN_FIELDS).to_string(),
            _ => rng.pick(ORD_FIELDS).to_string(),
        };
        if !used.contains(&n) {
            used.push(n.clone());
            return n;
        }
    }
    let n = format!("f{}", used.len());
    used.push(n.clone());
    n
}

pub fn gen_type(rng: &mut Rng, cfg: &GenCfg, depth: usize, typenames: &[String]) -> Ty {
    gen_type2(rng, cfg, depth, typenames, typenames)
}

/// `byval`: typedef names usable by value here; `indirect`: names usable below [] / [string]
pub fn gen_type2(rng: &mut Rng, cfg: &GenCfg, depth: usize, byval: &[String], indirect: &[String]) -> Ty {
    let typenames = byval;
    let leaf = depth == 0;
    match rng.below(if leaf { 7 } else { 13 }) {
        0 => Ty::Bool,
        1 => Ty::Int,
        2 => Ty::Float,
        3 => Ty::Str,
        4 => Ty::Object,
        5 | 6 => {
            if cfg.typerefs && !typenames.is_empty() {
                Ty::Name(rng.pick(typenames).clone())
            } else {
                Ty::Str
            }
        }
        7 => Ty::Array(Box::new(gen_type2(rng, cfg, depth - 1, indirect, indirect))),
        8 => Ty::Dict(Box::new(gen_type2(rng, cfg, depth - 1, indirect, indirect))),
        9 => {
            // `?` may not wrap another `?`
            let mut inner = gen_type2(rng, cfg, depth - 1, byval, indirect);
            if let Ty::Opt(i) = inner {
                inner = *i;
            }
            Ty::Opt(Box::new(inner))
        }
        10 | 11 => gen_struct2(rng, cfg, depth - 1, byval, indirect),
        _ => {
            let n = rng.range(1, 4);
            let mut used = Vec::new();
            Ty::Enum((0..n).map(|_| gen_field_name(rng, cfg, &mut used)).collect())
        }
    }
}

pub fn gen_struct(rng: &mut Rng, cfg: &GenCfg, depth: usize, typenames: &[String]) -> Ty {
    gen_struct2(rng, cfg, depth, typenames, typenames)
}
pub fn gen_struct2(rng: &mut Rng, cfg: &GenCfg, depth: usize, byval: &[String], indirect: &[String]) -> Ty {
    let n = rng.below(cfg.max_fields + 1);
    let mut used = Vec::new();
    Ty::Struct((0..n).map(|_| (gen_field_name(rng, cfg, &mut used), gen_type2(rng, cfg, depth, byval, indirect))).collect())
}

pub fn gen_comment(rng: &mut Rng) -> String {
    // (the last four end in characters whose UTF-8 encoding ends in byte 0xA0 / 0x80 / 0xBF or in
    // a layout character: whatever trims documentation blocks must do it by characters)
    let bodies = [
        "", " doc", " Ünïcödé 日本語 😀", " tab\there", "# double", " trailing space ", " \u{1b}[31mred\u{1b}[0m", " interface x.y", " method F() -> ()", "\u{00a0}nbsp", " a: int, (", " -> ) )",
        " voil\u{e0}", " dagger \u{2020}", " ends with nbsp\u{a0}", " \u{20ac}\u{ff}",
        // text that ends a Rust string literal of one kind or another
        " e.g. \"#ff8800\"", " r#\"raw\"# and \"##", " back\\slash \\\" \\n {brace} {{", " */ /* '\\''",
    ];
    format!("#{}", rng.pick(&bodies))
}

pub fn gen_idl(rng: &mut Rng, cfg: &GenCfg) -> Idl {
    let nmem = rng.range(1, cfg.max_members);
    let mut names: Vec<String> = Vec::new();
    let mut kinds = Vec::new();
    for _ in 0..nmem {
        let k = *rng.pick(&[MKind::Type, MKind::Method, MKind::Method, MKind::Error]);
        let mut n;
        loop {
            n = if cfg.keyword_names && rng.chance(1, 4) { rng.pick(KW_NAMES).to_string() } else { rng.pick(ORD_NAMES).to_string() };
            if !names.contains(&n) {
                break;
            }
            n = format!("{}{}", n, names.len());
            if !names.contains(&n) {
                break;
            }
        }
        names.push(n);
        kinds.push(k);
    }
    let typenames: Vec<String> = names.iter().zip(kinds.iter()).filter(|(_, k)| **k == MKind::Type).map(|(n, _)| n.clone()).collect();
    let mut members = Vec::new();
    for (n, k) in names.iter().zip(kinds.iter()) {
        let comments: Vec<String> = if cfg.comments { (0..rng.below(3)).map(|_| gen_comment(rng)).collect() } else { vec![] };
        let m = match k {
            MKind::Type => {
                let a = if rng.chance(1, 4) {
                    let cnt = rng.range(1, 4);
                    let mut used = Vec::new();
                    Ty::Enum((0..cnt).map(|_| gen_field_name(rng, cfg, &mut used)).collect())
                } else if cfg.finite {
                    let me = typenames.iter().position(|t| t == n).unwrap_or(0);
                    gen_struct2(rng, cfg, cfg.max_depth, &typenames[..me], &typenames)
                } else {
                    gen_struct(rng, cfg, cfg.max_depth, &typenames)
                };
                Member { kind: *k, name: n.clone(), comments, a, b: None }
            }
            MKind::Method => Member { kind: *k, name: n.clone(), comments, a: gen_struct(rng, cfg, cfg.max_depth, &typenames), b: Some(gen_struct(rng, cfg, cfg.max_depth, &typenames)) },
            MKind::Error => Member { kind: *k, name: n.clone(), comments, a: gen_struct(rng, cfg, cfg.max_depth, &typenames), b: None },
        };
        members.push(m);
    }
    let comments: Vec<String> = if cfg.comments { (0..rng.below(3)).map(|_| gen_comment(rng)).collect() } else { vec![] };
    Idl { name: rng.pick(IFACE_NAMES).to_string(), comments, members }
}

// ------------------------------------------------------------------ rendering with trivia

#[derive(Clone, Debug, PartialEq)]
pub struct Tok {
    pub text: String,
    pub trivia: bool,
}
fn t(s: &str) -> Tok {
    Tok { text: s.to_string(), trivia: false }
}
fn tr(s: String) -> Tok {
    Tok { text: s, trivia: true }
}

/// level 0: canonical minimal layout; 1: ASCII blanks and LF; 2: every whitespace code point,
/// every line-ending convention, comments inside structs
pub struct Deco<'a> {
    pub rng: &'a mut Rng,
    pub level: usize,
}

impl Deco<'_> {
    fn ws(&mut self) -> String {
        match self.level {
            0 => String::new(),
            1 => " ".repeat(self.rng.below(3)),
            _ => (0..self.rng.below(3)).map(|_| *self.rng.pick(WS)).collect(),
        }
    }
    fn ws1(&mut self) -> String {
        match self.level {
            0 => " ".to_string(),
            1 => " ".repeat(self.rng.range(1, 3)),
            _ => (0..self.rng.range(1, 3)).map(|_| *self.rng.pick(WS)).collect(),
        }
    }
    fn eol(&mut self) -> String {
        match self.level {
            0 | 1 => "\n".into(),
            _ => self.rng.pick(EOLS).to_string(),
        }
    }
    /// wce* inside parentheses (may contain line ends and comments at level 2)
    fn inner(&mut self) -> String {
        match self.level {
            0 => String::new(),
            1 => {
                if self.rng.chance(1, 4) {
                    format!("\n{}", " ".repeat(self.rng.below(4)))
                } else {
                    " ".repeat(self.rng.below(2))
                }
            }
            _ => {
                let mut s = self.ws();
                if self.rng.chance(1, 5) {
                    s.push_str(&self.eol());
                    s.push_str(&self.ws());
                }
                if self.rng.chance(1, 12) {
                    s.push_str(&gen_comment(self.rng));
                    s.push_str(&self.eol());
                    s.push_str(&self.ws());
                }
                s
            }
        }
    }
    fn ty(&mut self, ty: &Ty, out: &mut Vec<Tok>) {
        match ty {
            Ty::Bool => out.push(t("bool")),
            Ty::Int => out.push(t("int")),
            Ty::Float => out.push(t("float")),
            Ty::Str => out.push(t("string")),
            Ty::Object => out.push(t("object")),
            Ty::Name(n) => out.push(t(n)),
            Ty::Array(i) => {
                out.push(t("[]"));
                self.ty(i, out);
            }
            Ty::Dict(i) => {
                out.push(t("[string]"));
                self.ty(i, out);
            }
            Ty::Opt(i) => {
                out.push(t("?"));
                self.ty(i, out);
            }
            Ty::Struct(fs) => {
                out.push(t("("));
                out.push(tr(self.inner()));
                for (k, (n, ft)) in fs.iter().enumerate() {
                    if k > 0 {
                        out.push(t(","));
                        out.push(tr(if self.level == 0 { " ".into() } else { self.inner() }));
                    }
                    out.push(t(n));
                    out.push(tr(self.inner()));
                    out.push(t(":"));
                    out.push(tr(if self.level == 0 { " ".into() } else { self.inner() }));
                    self.ty(ft, out);
                }
                out.push(tr(self.inner()));
                out.push(t(")"));
            }
            Ty::Enum(es) => {
                out.push(t("("));
                out.push(tr(self.inner()));
                for (k, n) in es.iter().enumerate() {
                    if k > 0 {
                        out.push(t(","));
                        out.push(tr(if self.level == 0 { " ".into() } else { self.inner() }));
                    }
                    out.push(t(n));
                }
                out.push(tr(self.inner()));
                out.push(t(")"));
            }
        }
    }
    /// leading trivia of a member / the interface: blank lines and the given comment lines
    fn doc(&mut self, comments: &[String], out: &mut Vec<Tok>) {
        let mut s = String::new();
        if self.level > 0 {
            for _ in 0..self.rng.below(3) {
                s.push_str(&self.ws());
                s.push_str(&self.eol());
            }
        }
        for c in comments {
            s.push_str(&self.ws());
            s.push_str(c);
            s.push_str(&self.eol());
            if self.level > 0 && self.rng.chance(1, 4) {
                s.push_str(&self.ws());
                s.push_str(&self.eol());
            }
        }
        s.push_str(&self.ws());
        out.push(tr(s));
    }
    /// separator after the interface name / between members: (ws* eol) | comment — a comment
    /// used as separator belongs to nobody's documentation
    fn sep(&mut self, out: &mut Vec<Tok>) {
        if self.level == 2 && self.rng.chance(1, 6) {
            let mut s = gen_comment(self.rng);
            s.push_str(&self.eol());
            out.push(tr(s));
        } else {
            let mut s = self.ws();
            s.push_str(&self.eol());
            out.push(tr(s));
        }
    }
    pub fn render(&mut self, idl: &Idl) -> Vec<Tok> {
        let mut out = Vec::new();
        self.doc(&idl.comments, &mut out);
        out.push(t("interface"));
        out.push(tr(self.ws1()));
        out.push(t(&idl.name));
        for m in &idl.members {
            self.sep(&mut out);
            self.doc(&m.comments, &mut out);
            out.push(t(match m.kind {
                MKind::Type => "type",
                MKind::Method => "method",
                MKind::Error => "error",
            }));
            out.push(tr(self.ws1()));
            out.push(t(&m.name));
            out.push(tr(self.ws()));
            self.ty(&m.a, &mut out);
            if let Some(b) = &m.b {
                out.push(tr(if self.level == 0 { " ".into() } else { self.ws() }));
                out.push(t("->"));
                out.push(tr(if self.level == 0 { " ".into() } else { self.ws() }));
                self.ty(b, &mut out);
            }
        }
        // end of file: nothing, a line end, or trailing blank lines
        match self.rng.below(3) {
            0 => {}
            1 => out.push(tr(self.eol())),
            _ => {
                let mut s = self.ws();
                s.push_str(&self.eol());
                s.push_str(&self.ws());
                s.push_str(&self.eol());
                out.push(tr(s));
            }
        }
        out
    }
}

pub fn join(toks: &[Tok]) -> String {
    toks.iter().map(|t| t.text.as_str()).collect()
}

pub fn render(idl: &Idl, rng: &mut Rng, level: usize) -> String {
    join(&Deco { rng, level }.render(idl))
}

/// Single token-level edit; returns the mutated text and the operator name.
pub fn mutate_tokens(toks: &[Tok], rng: &mut Rng) -> (String, &'static str) {
    let mut v: Vec<Tok> = toks.to_vec();
    let n = v.len();
    let subst = ["(", ")", ",", ":", "->", "?", "[]", "[string]", "int", "string", "type", "method", "error", "interface", "Foo", "foo", "_", "-", ".", "a.b", "A", "1", "\n", " ", "#c\n", "#c", "=", "{", "}", "[", "]", "é"];
    let op = rng.below(5);
    let name = match op {
        0 => {
            let i = rng.below(n);
            v.remove(i);
            "delete"
        }
        1 => {
            let i = rng.below(n + 1);
            let s: &str = rng.pick::<&str>(&subst[..]);
            v.insert(i, t(s));
            "insert"
        }
        2 => {
            let i = rng.below(n);
            let j = rng.below(n);
            v.swap(i, j);
            "swap"
        }
        3 => {
            let i = rng.below(n);
            let s: &str = rng.pick::<&str>(&subst[..]);
            v[i] = t(s);
            "substitute"
        }
        _ => {
            let i = rng.below(n);
            let d = v[i].clone();
            v.insert(i, d);
            "duplicate"
        }
    };
    (join(&v), name)
}
