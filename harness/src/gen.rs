//! C08/C09 machinery: generated interface definitions -> code emitted by the generator under
//! test -> a throw-away crate that rustc checks (C09) or that round-trips generated values
//! through the generated client and server (C08).
use crate::core::*;
use crate::idl::*;
use serde_json::{json, Map, Value};
use std::collections::BTreeMap;
use std::convert::TryFrom;
use std::path::{Path, PathBuf};
use std::process::Command;

pub const STRICT_KW: &[&str] = &[
    "as", "break", "const", "continue", "crate", "else", "enum", "extern", "false", "fn", "for", "if", "impl", "in", "let", "loop", "match", "mod", "move", "mut", "pub", "ref", "return", "self", "static", "struct",
    "super", "trait", "true", "type", "unsafe", "use", "where", "while", "async", "await", "dyn", "abstract", "become", "box", "do", "final", "macro", "override", "priv", "typeof", "unsized", "virtual", "yield", "try", "gen",
];

/// the documented method-name conversion (TestMethod -> test_method), reimplemented
pub fn snake(s: &str) -> String {
    let mut out = String::new();
    let mut last_upper = false;
    for (i, c) in s.chars().enumerate() {
        if c.is_uppercase() && i > 0 && !last_upper {
            out.push('_');
        }
        last_upper = c.is_uppercase();
        out.extend(c.to_lowercase());
    }
    out
}

#[derive(Clone, Debug)]
pub struct GenIdl {
    pub idl: Idl,
    pub text: String,
    /// at most one feature known to be risky for the generator (class, detail)
    pub risky: Option<(String, String)>,
}

fn strip_anon(t: &Ty) -> Ty {
    match t {
        Ty::Struct(_) | Ty::Enum(_) => Ty::Str,
        Ty::Array(i) => Ty::Array(Box::new(strip_anon(i))),
        Ty::Dict(i) => Ty::Dict(Box::new(strip_anon(i))),
        Ty::Opt(i) => Ty::Opt(Box::new(strip_anon(i))),
        o => o.clone(),
    }
}

fn has_anon(t: &Ty) -> bool {
    match t {
        Ty::Struct(_) | Ty::Enum(_) => true,
        Ty::Array(i) | Ty::Dict(i) | Ty::Opt(i) => has_anon(i),
        _ => false,
    }
}

/// A definition the generator is expected to handle (no risky feature), then optionally one
/// risky feature injected. `idx` makes the interface name unique.
pub fn gen_for_generator(rng: &mut Rng, idx: usize, risky_pct: usize, depth: usize) -> GenIdl {
    // self / Self / super / crate as field or element names are handled by the generator since
    // fix 4ad3b39 (trailing underscore + serde rename), so they are part of the clean class
    let cfg = GenCfg { max_depth: depth, max_members: 6, max_fields: 4, keyword_fields: true, keyword_names: false, raw_forbidden: true, typerefs: true, comments: true, finite: true };
    let mut idl = gen_idl(rng, &cfg);
    idl.name = format!("org.verif.g{}.x{}", idx, rng.pick(&["", "-y", ".Z9"]));
    // anonymous types in error parameters are a risky feature: remove them by default
    for m in idl.members.iter_mut() {
        if m.kind == MKind::Error {
            if let Ty::Struct(fs) = &m.a {
                m.a = Ty::Struct(fs.iter().map(|(n, t)| (n.clone(), strip_anon(t))).collect());
            }
        }
    }
    let mut risky = None;
    if rng.below(100) < risky_pct {
        match rng.below(9) {
            4 => {
                // an input parameter spelled like the generated server method's own `call` argument
                idl.members.push(Member { kind: MKind::Method, name: "RiskyCallField".into(), comments: vec![], a: Ty::Struct(vec![("call".into(), Ty::Int), ("x".into(), Ty::Str)]), b: Some(Ty::Struct(vec![("call".into(), Ty::Int)])) });
                // compiles on the unchanged tree: part of the clean class (and inherent risks of
                // the rest of the definition keep their own label)
            }
            5 => {
                // a method whose snake_case name is an item of the generated server trait
                if !idl.members.iter().any(|m| m.name == "CallUpgraded") {
                    idl.members.push(Member { kind: MKind::Method, name: "CallUpgraded".into(), comments: vec![], a: Ty::Struct(vec![("a".into(), Ty::Int)]), b: Some(Ty::Struct(vec![("b".into(), Ty::Str)])) });
                    risky = Some(("method-named-like-generated-trait-item".to_string(), "CallUpgraded".to_string()));
                }
            }
            6 => {
                // two anonymous types whose generated names coincide: M_Args_a_b from `a_b: (..)` and from `a: (b: (..))`
                idl.members.push(Member {
                    kind: MKind::Method,
                    name: "RiskyAnonNames".into(),
                    comments: vec![],
                    a: Ty::Struct(vec![("a_b".into(), Ty::Struct(vec![("x".into(), Ty::Int)])), ("a".into(), Ty::Struct(vec![("b".into(), Ty::Struct(vec![("y".into(), Ty::Str)]))]))]),
                    b: Some(Ty::Struct(vec![])),
                });
                risky = Some(("anonymous-type-names-collide".to_string(), "RiskyAnonNames".to_string()));
            }
            7 => {
                // two method names that differ only in the case of inner letters
                if !idl.members.iter().any(|m| m.name == "FooBar" || m.name == "FOoBar") {
                    for n in ["FooBar", "FOoBar"] {
                        idl.members.push(Member { kind: MKind::Method, name: n.into(), comments: vec![], a: Ty::Struct(vec![("a".into(), Ty::Int)]), b: Some(Ty::Struct(vec![])) });
                    }
                    risky = Some(("method-names-collide-in-snake-case".to_string(), "FooBar/FOoBar".to_string()));
                }
            }
            8 => {
                // a declared error whose reply helper is spelled like one of CallTrait's
                let n = *rng.pick(&["InvalidParameter", "MethodNotFound", "Struct", "Parameters"]);
                if !idl.members.iter().any(|m| m.name == n) {
                    idl.members.push(Member { kind: MKind::Error, name: n.into(), comments: vec![], a: Ty::Struct(vec![("x".into(), Ty::Int)]), b: None });
                    risky = Some(("error-named-like-a-calltrait-reply".to_string(), n.to_string()));
                }
            }
            0 => {
                // anonymous struct/enum in an error parameter
                let anon = if rng.chance(1, 2) { Ty::Enum(vec!["one".into(), "two".into()]) } else { Ty::Struct(vec![("a".into(), Ty::Int), ("b".into(), Ty::Array(Box::new(Ty::Str)))]) };
                let wrap = match rng.below(4) {
                    0 => anon,
                    1 => Ty::Array(Box::new(anon)),
                    2 => Ty::Opt(Box::new(anon)),
                    _ => Ty::Dict(Box::new(anon)),
                };
                idl.members.push(Member { kind: MKind::Error, name: "RiskyAnonErr".into(), comments: vec![], a: Ty::Struct(vec![("plain".into(), Ty::Int), ("anon".into(), wrap)]), b: None });
                risky = Some(("error-param-anonymous-type".to_string(), "RiskyAnonErr".to_string()));
            }
            1 => {
                // member name whose snake_case form is a Rust keyword / prelude-like name
                let n = *rng.pick(KW_NAMES);
                if !idl.members.iter().any(|m| m.name == n) {
                    let kind = *rng.pick(&[MKind::Method, MKind::Error]);
                    idl.members.push(Member { kind, name: n.into(), comments: vec![], a: Ty::Struct(vec![("a".into(), Ty::Int)]), b: if kind == MKind::Method { Some(Ty::Struct(vec![("b".into(), Ty::Str)])) } else { None } });
                    // method names are handled since fix d0373ca (raw identifiers); an error
                    // named Self still yields the variant `ErrorKind::Self`
                    if kind == MKind::Error && n == "Self" {
                        risky = Some(("error-name-like-rust-keyword-or-prelude".to_string(), n.to_string()));
                    }
                    // `error Struct` adds `reply_struct` beside CallTrait's own
                    if kind == MKind::Error && n == "Struct" {
                        risky = Some(("error-named-like-a-calltrait-reply".to_string(), n.to_string()));
                    }
                }
            }
            2 => {
                let n = *rng.pick(RAW_FORBIDDEN_FIELDS);
                let place = rng.below(3);
                let fld = (n.to_string(), Ty::Int);
                match place {
                    0 => idl.members.push(Member { kind: MKind::Method, name: "RiskyRaw".into(), comments: vec![], a: Ty::Struct(vec![fld]), b: Some(Ty::Struct(vec![])) }),
                    1 => idl.members.push(Member { kind: MKind::Type, name: "RiskyRaw".into(), comments: vec![], a: Ty::Struct(vec![fld]), b: None }),
                    _ => idl.members.push(Member { kind: MKind::Type, name: "RiskyRaw".into(), comments: vec![], a: Ty::Enum(vec![n.to_string(), "other".into()]), b: None }),
                }
                let _ = n; // no longer a risky feature: must generate and compile
            }
            _ => {
                let n = *rng.pick(&["Option", "Vec", "String", "Result", "Box", "Error", "ErrorKind", "Ok", "Some", "Self", "Call", "VarlinkClient", "VarlinkInterface"]);
                if !idl.members.iter().any(|m| m.name == n) {
                    idl.members.insert(0, Member { kind: MKind::Type, name: n.into(), comments: vec![], a: Ty::Struct(vec![("a".into(), Ty::Opt(Box::new(Ty::Int))), ("b".into(), Ty::Array(Box::new(Ty::Str)))]), b: None });
                    risky = Some(("typedef-named-like-prelude-or-generated-item".to_string(), n.to_string()));
                }
            }
        }
    }
    if risky.is_none() {
        risky = inherent_risk(&idl);
    }
    let level = rng.below(2);
    let text = render(&idl, rng, level);
    GenIdl { idl, text, risky }
}

/// Risky patterns that can arise without being injected: a method/error parameter whose own
/// enum type (anonymous or a typedef) has an element spelled like the parameter (rustc E0170).
pub fn inherent_risk(idl: &Idl) -> Option<(String, String)> {
    let enums: std::collections::HashMap<&str, &Vec<String>> = idl.members.iter().filter_map(|m| if let (MKind::Type, Ty::Enum(es)) = (m.kind, &m.a) { Some((m.name.as_str(), es)) } else { None }).collect();
    for m in &idl.members {
        if m.kind == MKind::Type {
            continue;
        }
        for t in [Some(&m.a), m.b.as_ref()].into_iter().flatten() {
            if let Ty::Struct(fs) = t {
                for (n, ft) in fs {
                    let es: Option<&Vec<String>> = match ft {
                        Ty::Enum(es) => Some(es),
                        Ty::Name(tn) => enums.get(tn.as_str()).copied(),
                        _ => None,
                    };
                    if es.map(|e| e.contains(n)).unwrap_or(false) {
                        return Some(("parameter-named-like-an-element-of-its-own-enum-type".into(), format!("{}.{}", m.name, n)));
                    }
                }
            }
        }
    }
    None
}

/// Members with shapes that are easy to get wrong, added to every driven interface: string sets
/// next to maps of one-field and of optional values, optionals below arrays/maps, a method whose
/// inputs are all optional (arguments serialise to `{}`), and several errors of equal name length.
pub fn add_probe_members(g: &mut GenIdl, rng: &mut Rng) {
    let has = |g: &GenIdl, n: &str| g.idl.members.iter().any(|m| m.name == n);
    if has(g, "ProbeShapes") || has(g, "ProbeAllOptional") || has(g, "ErrA") || has(g, "ErrB") {
        return;
    }
    let set = Ty::Dict(Box::new(Ty::Struct(vec![])));
    let shapes = vec![
        ("set".to_string(), set.clone()),
        ("one".to_string(), Ty::Dict(Box::new(Ty::Struct(vec![("a".into(), Ty::Int)])))),
        ("optset".to_string(), Ty::Opt(Box::new(set.clone()))),
        ("arrset".to_string(), Ty::Array(Box::new(set))),
        ("arropt".to_string(), Ty::Array(Box::new(Ty::Opt(Box::new(Ty::Int))))),
        ("mapopt".to_string(), Ty::Dict(Box::new(Ty::Opt(Box::new(Ty::Str))))),
        // a dictionary of optional empty structs is not a string set: its elements may be null
        ("mapoptunit".to_string(), Ty::Dict(Box::new(Ty::Opt(Box::new(Ty::Struct(vec![])))))),
        ("arroptunit".to_string(), Ty::Array(Box::new(Ty::Opt(Box::new(Ty::Struct(vec![])))))),
        ("same_a".to_string(), Ty::Str),
        ("same_b".to_string(), Ty::Str),
    ];
    g.idl.members.push(Member { kind: MKind::Method, name: "ProbeShapes".into(), comments: vec![], a: Ty::Struct(shapes.clone()), b: Some(Ty::Struct(shapes)) });
    let opts = vec![("limit".to_string(), Ty::Opt(Box::new(Ty::Int))), ("filter".to_string(), Ty::Opt(Box::new(Ty::Str))), ("flags".to_string(), Ty::Opt(Box::new(Ty::Array(Box::new(Ty::Bool)))))];
    g.idl.members.push(Member { kind: MKind::Method, name: "ProbeAllOptional".into(), comments: vec![], a: Ty::Struct(opts), b: Some(Ty::Struct(vec![("n".into(), Ty::Int)])) });
    let mut errs = vec![
        Member { kind: MKind::Error, name: "ErrA".into(), comments: vec![], a: Ty::Struct(vec![("why".into(), Ty::Str)]), b: None },
        Member { kind: MKind::Error, name: "ErrB".into(), comments: vec![], a: Ty::Struct(vec![("code".into(), Ty::Int), ("why".into(), Ty::Opt(Box::new(Ty::Str)))]), b: None },
    ];
    // declared errors whose member name equals one of org.varlink.service's: an error is
    // identified by its full name, so these must arrive as their own variants
    if !has(g, "InterfaceNotFound") && !has(g, "MethodNotImplemented") {
        errs.push(Member { kind: MKind::Error, name: "InterfaceNotFound".into(), comments: vec![], a: Ty::Struct(vec![("hint".into(), Ty::Opt(Box::new(Ty::Str)))]), b: None });
        errs.push(Member { kind: MKind::Error, name: "MethodNotImplemented".into(), comments: vec![], a: Ty::Struct(vec![("why".into(), Ty::Str)]), b: None });
    }
    // in any order (which error is declared first / last must not matter)
    for i in (1..errs.len()).rev() {
        let j = rng.below(i + 1);
        errs.swap(i, j);
    }
    g.idl.members.extend(errs);
    let level = rng.below(2);
    g.text = render(&g.idl, rng, level);
}

#[derive(Debug)]
pub enum Emit {
    Ok(String),
    Err(String),
    Panic(String),
}

pub fn emit(text: &str, tosource: bool) -> Emit {
    let t = text.to_string();
    let prev = std::panic::take_hook();
    std::panic::set_hook(Box::new(|_| {}));
    let r = std::panic::catch_unwind(move || {
        let mut out: Vec<u8> = Vec::new();
        let res = varlink_generator::generate(&mut t.as_bytes(), &mut out, tosource);
        (res.map_err(|e| e.to_string()), out)
    });
    std::panic::set_hook(prev);
    match r {
        Ok((Ok(()), out)) => Emit::Ok(String::from_utf8_lossy(&out).to_string()),
        Ok((Err(e), out)) => {
            if out.is_empty() {
                Emit::Err(e)
            } else {
                Emit::Err(format!("{} (but {} bytes of output were written)", e, out.len()))
            }
        }
        Err(p) => Emit::Panic(p.downcast_ref::<String>().cloned().or_else(|| p.downcast_ref::<&str>().map(|s| s.to_string())).unwrap_or_default()),
    }
}

pub fn repo_dir() -> String {
    std::env::var("VERIF_REPO").unwrap_or_else(|_| "/repo".into())
}

pub fn gen_root() -> PathBuf {
    let d = verif_dir().join("target").join("gen");
    std::fs::create_dir_all(&d).unwrap();
    d
}

pub fn write_crate(dir: &Path, name: &str, deps_extra: &str, files: &[(String, String)], build_rs: Option<&str>) {
    let _ = std::fs::remove_dir_all(dir.join("src"));
    std::fs::create_dir_all(dir.join("src")).unwrap();
    let repo = repo_dir();
    let cargo = format!(
        "[package]\nname = \"{name}\"\nversion = \"0.0.1\"\nedition = \"2018\"\n{build}\n[workspace]\n\n[dependencies]\nvarlink = {{ path = \"{repo}/varlink\" }}\nserde = \"1.0\"\nserde_derive = \"1.0\"\nserde_json = \"1.0\"\n{extra}\n[profile.dev]\ndebug = 0\nincremental = false\n",
        name = name,
        repo = repo,
        extra = deps_extra,
        build = if build_rs.is_some() { "build = \"build.rs\"" } else { "" }
    );
    std::fs::write(dir.join("Cargo.toml"), cargo).unwrap();
    let _ = std::fs::copy(verif_dir().join("harness").join("Cargo.lock"), dir.join("Cargo.lock"));
    if let Some(b) = build_rs {
        std::fs::write(dir.join("build.rs"), b).unwrap();
    }
    for (f, c) in files {
        let p = dir.join(f);
        if let Some(parent) = p.parent() {
            std::fs::create_dir_all(parent).unwrap();
        }
        std::fs::write(p, c).unwrap();
    }
}

#[derive(Debug, Clone)]
pub struct Diag {
    pub file: String,
    pub code: String,
    pub message: String,
    pub rendered: String,
}

/// `cargo <cmd> --message-format=json` in `dir`; returns (success, error diagnostics, raw tail).
pub fn cargo_json(dir: &Path, cmd: &[&str]) -> (bool, Vec<Diag>, String) {
    let target = gen_root().join("target");
    let out = Command::new("cargo")
        .args(cmd)
        .arg("--offline")
        .arg("--message-format=json")
        .current_dir(dir)
        .env("CARGO_TARGET_DIR", &target)
        .env("CARGO_NET_OFFLINE", "true")
        .env("RUSTFLAGS", "--cfg varlink_rust_verif")
        .output();
    let out = match out {
        Ok(o) => o,
        Err(e) => return (false, vec![], format!("cargo did not start: {}", e)),
    };
    let mut diags = Vec::new();
    for line in String::from_utf8_lossy(&out.stdout).lines() {
        let v: Value = match serde_json::from_str(line) {
            Ok(v) => v,
            Err(_) => continue,
        };
        if v["reason"] == "compiler-message" && v["message"]["level"] == "error" {
            let m = &v["message"];
            let file = m["spans"].as_array().and_then(|a| a.iter().find(|s| s["is_primary"] == true).or(a.first())).and_then(|s| s["file_name"].as_str()).unwrap_or("").to_string();
            // macro expansions: walk to the outermost expansion site
            let mut f2 = file.clone();
            if let Some(sp) = m["spans"].as_array().and_then(|a| a.first()) {
                let mut cur = sp;
                while cur["expansion"].is_object() {
                    cur = &cur["expansion"]["span"];
                    if let Some(n) = cur["file_name"].as_str() {
                        f2 = n.to_string();
                    }
                }
            }
            diags.push(Diag {
                file: if f2.is_empty() { file } else { f2 },
                code: m["code"]["code"].as_str().unwrap_or("").to_string(),
                message: m["message"].as_str().unwrap_or("").to_string(),
                rendered: truncate(m["rendered"].as_str().unwrap_or(""), 1500),
            });
        }
    }
    let tail = String::from_utf8_lossy(&out.stderr);
    let tail = tail.chars().rev().take(3000).collect::<String>().chars().rev().collect::<String>();
    (out.status.success(), diags, tail)
}

// ------------------------------------------------------------------ C09

pub fn c09_main(ctx: &Ctx, repo_bin_dir: Option<String>) -> i32 {
    ctx.set_rule("grammar-directed definitions (anonymous structs/enums in every position, IDL and Rust keywords as field names, typedef references incl. recursion through [] and [string], 0-6 members) with at most one injected risky feature {anonymous type in error parameters, member name like a Rust keyword/prelude item, self/Self/super/crate as names, typedef named like a prelude or generated item}; front-ends: generate() in process, the varlink-rust-generator binary, varlink_derive::varlink!, a build script using cargo_build_many, and generate_with_options (substituted int/float types + preamble; as source file and as module body); oracle: rustc (cargo check) on crates that contain only emitted modules; rejection half: token-mutated texts the parser rejects (library, binary, macro; and as one of several inputs of a build script, in every position); distinct = definition hash per front-end; non-trivial = >=1 anonymous or keyword-named element, or a rejected text one token away from a valid one");
    ctx.assume("the parser's verdict (accept/reject) is taken as given here; it is judged by C11");
    ctx.assume("recursion through `?` is not generated (whether that is 'finitely sized' is not decided by the statement); field names inside one struct, enum elements and member names are distinct");
    let n = ctx.tier.pick(60usize, 1500usize);
    let per_crate = 20usize;
    let mut rng = Rng::new(ctx.seed ^ 0x909);
    let root = gen_root().join(format!("c09-{}-{}", ctx.seed, std::process::id()));
    let _ = std::fs::remove_dir_all(&root);
    std::fs::create_dir_all(&root).unwrap();
    let cli = repo_bin_dir.map(|d| format!("{}/varlink-rust-generator", d));
    let mut batch: Vec<(usize, GenIdl, String)> = Vec::new();
    let mut all_ok: Vec<GenIdl> = Vec::new();
    let mut crate_no = 0;
    for i in 0..n {
        let mut g = gen_for_generator(&mut rng, i, 35, 1 + i % 4);
        if i == 1 {
            // one definition whose methods are named after every Rust keyword that can be
            // escaped (strict, 2018 and reserved-for-future-use alike)
            let mut idl = Idl { name: "org.verif.kw".into(), comments: vec![], members: vec![] };
            for kw in KW_NAMES.iter().filter(|k| !matches!(**k, "Self" | "Option" | "Vec" | "String" | "Result" | "Error" | "Ok" | "Some" | "Box" | "Struct")) {
                idl.members.push(Member { kind: MKind::Method, name: kw.to_string(), comments: vec![], a: Ty::Struct(vec![("a".into(), Ty::Int)]), b: Some(Ty::Struct(vec![("b".into(), Ty::Str)])) });
            }
            let text = render(&idl, &mut rng, 0);
            g = GenIdl { idl, text, risky: None };
        }
        if i % 2 == 0 && g.risky.is_none() {
            add_probe_members(&mut g, &mut rng);
        }
        let nontrivial = g.idl.members.iter().any(|m| has_anon(&m.a) || m.b.as_ref().map(has_anon).unwrap_or(false)) || g.risky.is_some() || g.text.contains("type:") || g.text.contains("fn");
        ctx.case(if nontrivial { Some(hash_of(&("lib", &g.text))) } else { None });
        let wit = |m: String| json!({"engine": "c09", "front_end": "generate()", "definition": g.text, "risky_feature": g.risky, "message": m});
        let sigclass = g.risky.as_ref().map(|r| r.0.clone()).unwrap_or_else(|| "no-risky-feature".into());
        // the parser must accept what we generate (otherwise nothing to judge here)
        if varlink_parser::IDL::try_from(g.text.as_str()).is_err() {
            ctx.inconclusive(json!({"harness": "generated definition rejected by the parser", "text": g.text}));
            continue;
        }
        match emit(&g.text, true) {
            Emit::Ok(code) => {
                ctx.count("definitions_emitted", 1);
                // CLI front-end: same output, exit 0
                if let Some(cli) = &cli {
                    let p = root.join(format!("i{}.varlink", i));
                    std::fs::write(&p, &g.text).unwrap();
                    if let Ok(o) = Command::new(cli).arg(&p).output() {
                        ctx.count("cli_generator_runs", 1);
                        if !o.status.success() || String::from_utf8_lossy(&o.stdout) != code {
                            ctx.violation(&format!("c09:cli-generator-differs:{}", sigclass), json!({"engine": "c09", "front_end": "varlink-rust-generator", "definition": g.text, "exit": o.status.code(), "stderr": String::from_utf8_lossy(&o.stderr).chars().take(600).collect::<String>()}));
                        }
                    }
                    let _ = std::fs::remove_file(&p);
                }
                batch.push((i, g.clone(), code));
                all_ok.push(g.clone());
            }
            Emit::Err(e) => ctx.violation(&format!("c09:generate-fails-on-valid-definition:{}", sigclass), wit(format!("generate() returned an error: {}", e))),
            Emit::Panic(p) => {
                ctx.count("generate_panics", 1);
                // the CLI must then fail too; abnormal exit is part of the same finding
                ctx.violation(&format!("c09:generate-panics:{}", sigclass), wit(format!("generate() panicked: {}", p)));
            }
        }
        if batch.len() == per_crate || (i + 1 == n && !batch.is_empty()) {
            check_batch(ctx, &root, crate_no, &batch);
            crate_no += 1;
            batch.clear();
        }
    }
    totality_sweep(ctx);
    // macro and build-script front-ends on a sample of the clean definitions
    let clean: Vec<&GenIdl> = all_ok.iter().filter(|g| g.risky.is_none()).collect();
    front_ends(ctx, &root, &clean[..clean.len().min(ctx.tier.pick(6, 40))]);
    // rejection half
    rejection(ctx, &root, &mut rng, cli.as_deref());
    let _ = std::fs::remove_dir_all(&root);
    ctx.finish(ctx.tier.pick(60, 1000))
}

/// Totality alone, without rustc: many more definitions than can be compiled, nested up to 8
/// anonymous levels, through generate() in process.  A panic or an error on a definition the
/// parser accepts is a violation (the clean class only: no injected risky feature).
fn totality_sweep(ctx: &Ctx) {
    let n = ctx.tier.pick(4_000usize, 100_000usize);
    let prev = std::panic::take_hook();
    std::panic::set_hook(Box::new(|_| {}));
    let nw = workers();
    par(nw, |w| {
        let mut rng = Rng::lane(ctx.seed, 9100 + w as u64);
        let mut i = w;
        while i < n && ctx.violations() < 5 {
            let depth = 1 + i % 8;
            let cfg = GenCfg { max_depth: depth, max_members: 4, max_fields: if depth > 4 { 2 } else { 4 }, keyword_fields: true, keyword_names: false, raw_forbidden: true, typerefs: true, comments: i % 3 == 0, finite: true };
            let mut idl = gen_idl(&mut rng, &cfg);
            idl.name = format!("org.verif.s{}", i);
            let level = rng.below(3);
            let text = render(&idl, &mut rng, level);
            i += nw;
            if varlink_parser::IDL::try_from(text.as_str()).is_err() {
                continue;
            }
            ctx.case(Some(hash_of(&("sweep", &text))));
            ctx.count("totality_sweep_definitions", 1);
            let t = text.clone();
            // both output modes (module body for OUT_DIR, stand-alone source file)
            let tosource = (i / nw) % 2 == 1;
            let r = std::panic::catch_unwind(move || {
                let mut out: Vec<u8> = Vec::new();
                varlink_generator::generate(&mut t.as_bytes(), &mut out, tosource).map_err(|e| e.to_string()).map(|_| out.len())
            });
            let wit = |m: String| json!({"engine": "c09", "front_end": format!("generate(tosource={})", tosource), "definition": text, "risky_feature": Value::Null, "message": m});
            match r {
                Ok(Ok(len)) => ctx.count("totality_sweep_bytes_emitted", len as u64),
                Ok(Err(e)) => ctx.violation("c09:generate-fails-on-valid-definition:no-risky-feature", wit(format!("generate() returned an error: {}", e))),
                Err(p) => ctx.violation("c09:generate-panics:no-risky-feature", wit(format!("generate() panicked: {}", p.downcast_ref::<String>().cloned().or_else(|| p.downcast_ref::<&str>().map(|s| s.to_string())).unwrap_or_default()))),
            }
        }
    });
    std::panic::set_hook(prev);
}

fn classify_compile_error(g: &GenIdl, d: &Diag) -> String {
    let class = g.risky.as_ref().map(|r| r.0.clone()).unwrap_or_else(|| "no-risky-feature".into());
    format!("c09:emitted-code-does-not-compile:{}", class)
}

fn check_batch(ctx: &Ctx, root: &Path, crate_no: usize, batch: &[(usize, GenIdl, String)]) {
    let dir = root.join(format!("chk{}", crate_no));
    let mut files: Vec<(String, String)> = Vec::new();
    let mut lib = String::from("#![allow(warnings)]\n");
    for (i, _, code) in batch {
        files.push((format!("src/m{}.rs", i), code.clone()));
        lib.push_str(&format!("pub mod m{};\n", i));
    }
    files.push(("src/lib.rs".into(), lib));
    write_crate(&dir, &format!("chk{}", crate_no), "", &files, None);
    let (ok, diags, tail) = cargo_json(&dir, &["check"]);
    ctx.count("crates_checked_by_rustc", 1);
    ctx.count("modules_checked_by_rustc", batch.len() as u64);
    let mut by_mod: BTreeMap<usize, Vec<&Diag>> = BTreeMap::new();
    for d in &diags {
        // src/m<i>.rs
        let f = d.file.rsplit('/').next().unwrap_or("");
        if let Some(num) = f.strip_prefix('m').and_then(|s| s.strip_suffix(".rs")).and_then(|s| s.parse::<usize>().ok()) {
            by_mod.entry(num).or_default().push(d);
        } else {
            by_mod.entry(usize::MAX).or_default().push(d);
        }
    }
    if !ok && diags.is_empty() {
        ctx.inconclusive(json!({"harness": "cargo check failed without compiler diagnostics", "tail": tail}));
        return;
    }
    for (i, g, _) in batch {
        if let Some(ds) = by_mod.get(i) {
            let d = ds[0];
            ctx.violation(
                &classify_compile_error(g, d),
                json!({"engine": "c09", "front_end": "generate()+rustc", "definition": g.text, "risky_feature": g.risky, "rustc_errors": ds.len(), "first_error_code": d.code, "first_error": d.message, "rendered": d.rendered}),
            );
        } else {
            ctx.count("modules_compiled_clean", 1);
            if ctx.want_sample() {
                ctx.sample(json!({"definition": g.text, "result": "emitted module compiles"}));
            }
        }
    }
    if let Some(ds) = by_mod.get(&usize::MAX) {
        ctx.inconclusive(json!({"harness": "compiler errors outside emitted modules", "first": ds[0].message}));
    }
    let _ = std::fs::remove_dir_all(&dir);
}

fn front_ends(ctx: &Ctx, root: &Path, sample: &[&GenIdl]) {
    if sample.is_empty() {
        return;
    }
    let repo = repo_dir();
    // varlink_derive::varlink!
    let dir = root.join("mac");
    let mut files: Vec<(String, String)> = Vec::new();
    let mut lib = String::from("#![allow(warnings)]\n");
    for (k, g) in sample.iter().enumerate() {
        // a raw string literal r#"..."# cannot contain "#
        if g.text.contains("\"#") {
            continue;
        }
        files.push((format!("src/mm{}.rs", k), format!("varlink_derive::varlink!(inner, r#\"{}\"#);\n", g.text)));
        lib.push_str(&format!("pub mod mm{};\n", k));
    }
    files.push(("src/lib.rs".into(), lib));
    write_crate(&dir, "mac", &format!("varlink_derive = {{ path = \"{}/varlink_derive\" }}\n", repo), &files, None);
    let (ok, diags, tail) = cargo_json(&dir, &["check"]);
    ctx.count("macro_front_end_modules", files.len() as u64 - 1);
    for (k, g) in sample.iter().enumerate() {
        ctx.case(Some(hash_of(&("macro", &g.text))));
        let hits: Vec<&Diag> = diags.iter().filter(|d| d.file.ends_with(&format!("mm{}.rs", k))).collect();
        if let Some(d) = hits.first() {
            ctx.violation("c09:macro-front-end-fails-on-valid-definition", json!({"engine": "c09", "front_end": "varlink_derive::varlink!", "definition": g.text, "first_error": d.message, "rendered": d.rendered}));
        }
    }
    if !ok && diags.is_empty() {
        ctx.inconclusive(json!({"harness": "macro crate failed without diagnostics", "tail": tail}));
    }
    let _ = std::fs::remove_dir_all(&dir);
    // build-script helpers
    let dir = root.join("bs");
    let mut files: Vec<(String, String)> = Vec::new();
    let mut lib = String::from("#![allow(warnings)]\n");
    let mut list = Vec::new();
    for (k, g) in sample.iter().enumerate() {
        files.push((format!("idl/b{}.varlink", k), g.text.clone()));
        list.push(format!("\"idl/b{}.varlink\"", k));
        lib.push_str(&format!("pub mod b{} {{ include!(concat!(env!(\"OUT_DIR\"), \"/b{}.rs\")); }}\n", k, k));
    }
    files.push(("src/lib.rs".into(), lib));
    let build = format!("fn main() {{ varlink_generator::cargo_build_many(&[{}]); }}\n", list.join(", "));
    let cargo_extra = format!("\n[build-dependencies]\nvarlink_generator = {{ path = \"{}/varlink_generator\" }}\n", repo);
    write_crate(&dir, "bs", &cargo_extra, &files, Some(&build));
    let (ok, diags, tail) = cargo_json(&dir, &["check"]);
    ctx.count("build_script_front_end_modules", sample.len() as u64);
    for (k, g) in sample.iter().enumerate() {
        ctx.case(Some(hash_of(&("build-script", &g.text))));
        if let Some(d) = diags.iter().find(|d| d.file.ends_with(&format!("/b{}.rs", k))) {
            ctx.violation("c09:build-script-front-end-output-does-not-compile", json!({"engine": "c09", "front_end": "cargo_build_many", "definition": g.text, "first_error": d.message, "rendered": d.rendered}));
        }
    }
    if !ok && diags.is_empty() {
        ctx.violation("c09:build-script-front-end-fails", json!({"engine": "c09", "front_end": "cargo_build_many", "message": "the build script (or cargo) failed without compiler diagnostics", "tail": tail}));
    }
    let _ = std::fs::remove_dir_all(&dir);
    // build script re-run after the definition shrank: the generated file must be the new code
    // only (same crate, same OUT_DIR, second `cargo check`)
    {
        let dir = root.join("regen");
        let long = "# first revision\ninterface org.verif.regen\ntype Cfg (name: string, level: int, tags: [string]())\nmethod Get() -> (cfg: Cfg)\nmethod Set(cfg: Cfg) -> ()\nmethod Watch(filter: ?string) -> (cfg: Cfg, seq: int)\nerror NotFound (name: string)\nerror Busy (owner: string, since: int)\n";
        let short = "interface org.verif.regen\nmethod Get() -> (name: string)\n";
        let files = vec![("idl/r.varlink".to_string(), long.to_string()), ("src/lib.rs".to_string(), "#![allow(warnings)]\npub mod r { include!(concat!(env!(\"OUT_DIR\"), \"/r.rs\")); }\n".to_string())];
        let build = "fn main() { varlink_generator::cargo_build(\"idl/r.varlink\"); }\n";
        let cargo_extra = format!("\n[build-dependencies]\nvarlink_generator = {{ path = \"{}/varlink_generator\" }}\n", repo);
        write_crate(&dir, "regen", &cargo_extra, &files, Some(build));
        let (ok1, d1, tail1) = cargo_json(&dir, &["check"]);
        ctx.case(Some(hash_of(&("regen", long, short))));
        ctx.count("build_script_regenerations", 1);
        if !ok1 {
            if d1.is_empty() {
                ctx.inconclusive(json!({"harness": "regen crate: first build failed without diagnostics", "tail": tail1}));
            } else {
                ctx.violation("c09:build-script-front-end-output-does-not-compile", json!({"engine": "c09", "front_end": "cargo_build", "definition": long, "first_error": d1[0].message, "rendered": d1[0].rendered}));
            }
        } else {
            std::fs::write(dir.join("idl/r.varlink"), short).unwrap();
            let (ok2, d2, tail2) = cargo_json(&dir, &["check"]);
            if !ok2 {
                ctx.violation(
                    "c09:build-script-front-end-regenerated-output-does-not-compile",
                    json!({"engine": "c09", "front_end": "cargo_build, run a second time into the same OUT_DIR after the definition shrank", "definition": short, "previous_definition": long,
                           "first_error": d2.first().map(|d| d.message.clone()).unwrap_or_default(), "rendered": d2.first().map(|d| d.rendered.clone()).unwrap_or(tail2)}),
                );
            }
        }
        let _ = std::fs::remove_dir_all(&dir);
    }
    // generator options: substituted scalar types + a preamble that defines them, written both
    // as a stand-alone source file (tosource) and as an includable module body
    let dir = root.join("opt");
    let mut files: Vec<(String, String)> = Vec::new();
    let mut lib = String::from("#![allow(warnings)]\n");
    let mut produced: Vec<(usize, bool)> = Vec::new();
    for (k, g) in sample.iter().enumerate() {
        for tosource in [true, false] {
            let t = g.text.clone();
            let r = std::panic::catch_unwind(move || {
                let opts = varlink_generator::GeneratorOptions {
                    int_type: Some("Int"),
                    float_type: Some("Flt"),
                    preamble: Some("pub type Int = i64; pub type Flt = f64; use std::collections::BTreeSet as _UnusedPreambleImport;".parse().unwrap()),
                    ..Default::default()
                };
                let mut out: Vec<u8> = Vec::new();
                varlink_generator::generate_with_options(&mut t.as_bytes(), &mut out, &opts, tosource).map(|_| out).map_err(|e| e.to_string())
            });
            ctx.case(Some(hash_of(&("options", tosource, &g.text))));
            match r {
                Ok(Ok(out)) => {
                    let code = String::from_utf8_lossy(&out).to_string();
                    if tosource {
                        files.push((format!("src/o{}.rs", k), code));
                        lib.push_str(&format!("pub mod o{};\n", k));
                    } else {
                        files.push((format!("src/p{}_inc.rs", k), code));
                        lib.push_str(&format!("pub mod p{} {{ include!(\"p{}_inc.rs\"); }}\n", k, k));
                    }
                    produced.push((k, tosource));
                }
                Ok(Err(e)) => ctx.violation("c09:generate-fails-on-valid-definition:with-options", json!({"engine": "c09", "front_end": "generate_with_options", "tosource": tosource, "definition": g.text, "message": e})),
                Err(_) => ctx.violation("c09:generate-panics:with-options", json!({"engine": "c09", "front_end": "generate_with_options", "tosource": tosource, "definition": g.text})),
            }
        }
    }
    files.push(("src/lib.rs".into(), lib));
    write_crate(&dir, "opt", "", &files, None);
    let (ok, diags, tail) = cargo_json(&dir, &["check"]);
    ctx.count("options_front_end_modules", produced.len() as u64);
    for (k, tosource) in &produced {
        let fname = if *tosource { format!("o{}.rs", k) } else { format!("p{}_inc.rs", k) };
        if let Some(d) = diags.iter().find(|d| d.file.ends_with(&fname)) {
            ctx.violation(
                "c09:options-front-end-output-does-not-compile",
                json!({"engine": "c09", "front_end": "generate_with_options(int_type, float_type, preamble)", "tosource": tosource, "definition": sample[*k].text, "first_error": d.message, "rendered": d.rendered}),
            );
        }
    }
    if !ok && diags.is_empty() {
        ctx.inconclusive(json!({"harness": "options crate failed without diagnostics", "tail": tail}));
    }
    let _ = std::fs::remove_dir_all(&dir);
}

fn rejection(ctx: &Ctx, root: &Path, rng: &mut Rng, cli: Option<&str>) {
    let n = ctx.tier.pick(300usize, 20_000usize);
    let mut rejected: Vec<String> = Vec::new();
    let mut tries = 0;
    while rejected.len() < n && tries < n * 20 {
        tries += 1;
        let idl = gen_idl(rng, &GenCfg { max_depth: 2, max_members: 4, max_fields: 3, keyword_fields: false, keyword_names: false, raw_forbidden: false, typerefs: true, comments: true, finite: true });
        let toks = Deco { rng, level: 1 }.render(&idl);
        let (m, _) = mutate_tokens(&toks, rng);
        if varlink_parser::IDL::try_from(m.as_str()).is_ok() {
            continue;
        }
        rejected.push(m);
    }
    // the semantic rejection class: well-formed syntax, one member name defined twice (the parser
    // refuses these with its "multiple definitions" error, after the grammar has accepted them)
    for (k, dup) in [
        "interface org.verif.dup\nmethod Get() -> (a: int)\nmethod Get(x: string) -> ()\n",
        "interface org.verif.dup\ntype State (a: int)\ntype State (b: string)\nmethod M(s: State) -> ()\n",
        "interface org.verif.dup\nmethod Thing() -> ()\nerror Thing (why: string)\n",
        "interface org.verif.dup\ntype Thing (a: int)\nmethod Other() -> ()\nmethod Thing() -> ()\n",
    ]
    .iter()
    .enumerate()
    {
        if varlink_parser::IDL::try_from(*dup).is_err() {
            rejected.insert(k, dup.to_string());
        } else {
            ctx.inconclusive(json!({"harness": "a duplicate-member text was accepted by the parser (C11's business)", "text": dup}));
        }
    }
    // character-level near misses: a valid text with ONE character added at its very beginning, its
    // very end or at a layout position, drawn from what *some* notion of white space or of "ignorable"
    // contains (Rust's char::is_whitespace, Unicode format characters, NUL) - a front end that
    // tidies its input (trim, BOM stripping, line-end normalisation) before parsing accepts what the
    // parser rejects (seeded C09-r10: `trim_start()` drops a leading VT / FF / NEL). The parser
    // itself decides which of them are rejected; only those are kept.
    {
        let pool = ['\u{b}', '\u{c}', '\u{85}', '\u{a0}', '\u{1680}', '\u{2003}', '\u{2028}', '\u{2029}', '\u{202f}', '\u{205f}', '\u{3000}', '\u{feff}', '\u{180e}', '\u{200b}', '\u{0}', '\u{1a}', '\u{7f}'];
        let mut at = 4usize.min(rejected.len());
        let mut kept = 0;
        for (pi, c) in pool.iter().enumerate() {
            let idl = gen_idl(rng, &GenCfg { max_depth: 1, max_members: 3, max_fields: 2, keyword_fields: false, keyword_names: false, raw_forbidden: false, typerefs: false, comments: pi % 2 == 0, finite: true });
            let base = crate::idl::render(&idl, rng, 0);
            if varlink_parser::IDL::try_from(base.as_str()).is_err() {
                continue;
            }
            let mut cands: Vec<String> = vec![format!("{}{}", c, base), format!("{}{}", base, c), format!("{}\n{}", c, base), format!("{}{}\n", base, c)];
            if let Some(i) = base.find('\n') {
                let mut t = base.clone();
                t.insert(i, *c);
                cands.push(t);
            }
            for t in cands {
                if varlink_parser::IDL::try_from(t.as_str()).is_err() {
                    rejected.insert(at.min(rejected.len()), t);
                    at += 1;
                    kept += 1;
                }
            }
        }
        ctx.count("rejected_texts_one_added_character", kept);
    }
    for (k, text) in rejected.iter().enumerate() {
        ctx.case(Some(hash_of(&("rejected", text))));
        ctx.count("rejected_texts", 1);
        match emit(text, true) {
            Emit::Err(e) if !e.contains("bytes of output were written") => {}
            Emit::Err(e) => ctx.violation("c09:rejected-input-but-output-written", json!({"engine": "c09", "text": text, "message": e})),
            Emit::Ok(_) => ctx.violation("c09:rejected-input-generates-code", json!({"engine": "c09", "text": text, "message": "generate() succeeded for a text the parser rejects"})),
            Emit::Panic(p) => ctx.violation("c09:rejected-input-panics", json!({"engine": "c09", "text": text, "message": p})),
        }
        if let (Some(cli), true) = (cli, k < ctx.tier.pick(100, 600)) {
            let p = root.join(format!("r{}.varlink", k));
            std::fs::write(&p, text).unwrap();
            if let Ok(o) = Command::new(cli).arg(&p).output() {
                ctx.count("cli_generator_runs", 1);
                if o.status.success() || !o.stdout.is_empty() {
                    ctx.violation("c09:cli-generator-accepts-rejected-input", json!({"engine": "c09", "front_end": "varlink-rust-generator", "text": text, "exit": o.status.code(), "stdout_bytes": o.stdout.len()}));
                } else if o.status.code() == Some(101) || o.status.code().is_none() {
                    ctx.violation("c09:cli-generator-aborts-on-rejected-input", json!({"engine": "c09", "front_end": "varlink-rust-generator", "text": text, "exit": format!("{:?}", o.status)}));
                }
            }
            let _ = std::fs::remove_file(&p);
        }
    }
    // macro: every rejected text must give a compile error located at its invocation
    let repo = repo_dir();
    let dir = root.join("macrej");
    let mut files: Vec<(String, String)> = Vec::new();
    let mut lib = String::from("#![allow(warnings)]\n");
    let sample: Vec<&String> = rejected.iter().filter(|t| !t.contains("\"#") && !t.contains('\u{0}')).take(ctx.tier.pick(20, 60)).collect();
    for (k, t) in sample.iter().enumerate() {
        files.push((format!("src/rj{}.rs", k), format!("varlink_derive::varlink!(inner, r#\"{}\"#);\n", t)));
        lib.push_str(&format!("pub mod rj{};\n", k));
    }
    files.push(("src/lib.rs".into(), lib));
    write_crate(&dir, "macrej", &format!("varlink_derive = {{ path = \"{}/varlink_derive\" }}\n", repo), &files, None);
    let (_ok, diags, _tail) = cargo_json(&dir, &["check"]);
    for (k, t) in sample.iter().enumerate() {
        ctx.case(Some(hash_of(&("macro-rejected", t))));
        if !diags.iter().any(|d| d.file.ends_with(&format!("rj{}.rs", k))) {
            ctx.violation("c09:macro-accepts-rejected-input", json!({"engine": "c09", "front_end": "varlink_derive::varlink!", "text": t, "message": "no compile error at the macro invocation"}));
        }
    }
    let _ = std::fs::remove_dir_all(&dir);
    // build-script helper: a rejected file among several inputs must fail the build script with
    // a diagnostic wherever it stands in the list
    let good = "interface org.verif.good\nmethod M(a: int) -> (b: string)\n";
    let good2 = "interface org.verif.good2\ntype T (x: ?bool)\nmethod N() -> (t: T)\n";
    for (oi, order) in [vec!["bad"], vec!["bad", "good"], vec!["good", "bad"], vec!["good", "bad", "good2"], vec!["bad", "good", "good2"]].iter().enumerate() {
        if oi >= ctx.tier.pick(3, 5) {
            break;
        }
        let bad = match rejected.get(oi) {
            Some(b) => b,
            None => break,
        };
        let dir = root.join(format!("bsrej{}", oi));
        let mut files: Vec<(String, String)> = vec![("src/lib.rs".into(), "#![allow(warnings)]\n".into())];
        let mut list = Vec::new();
        for (k, which) in order.iter().enumerate() {
            let text = match *which {
                "bad" => bad.as_str(),
                "good" => good,
                _ => good2,
            };
            files.push((format!("idl/f{}_{}.varlink", k, which), text.to_string()));
            list.push(format!("\"idl/f{}_{}.varlink\"", k, which));
        }
        let build = format!("fn main() {{ varlink_generator::cargo_build_many(&[{}]); }}\n", list.join(", "));
        let cargo_extra = format!("\n[build-dependencies]\nvarlink_generator = {{ path = \"{}/varlink_generator\" }}\n", repo);
        write_crate(&dir, &format!("bsrej{}", oi), &cargo_extra, &files, Some(&build));
        let (ok, _diags, tail) = cargo_json(&dir, &["check"]);
        ctx.case(Some(hash_of(&("build-script-rejected", order, bad))));
        ctx.count("build_script_rejection_orderings", 1);
        if ok {
            ctx.violation(
                "c09:build-script-front-end-accepts-rejected-input",
                json!({"engine": "c09", "front_end": "cargo_build_many", "input_order": order, "text": bad, "message": "the build script finished successfully although one of its inputs is rejected by the parser"}),
            );
        } else if !tail.contains("Could not generate") && !tail.contains("arlink parse error") && !tail.contains("custom build command") {
            ctx.inconclusive(json!({"harness": "build-script rejection crate failed for another reason", "tail": tail}));
        }
        let _ = std::fs::remove_dir_all(&dir);
    }
}

pub fn c09_replay(ctx: &Ctx, w: &Value) {
    let text = w.get("definition").or(w.get("text")).and_then(|v| v.as_str()).unwrap_or("");
    println!("definition:\n{}\n--- generate():", text);
    match emit(text, true) {
        Emit::Ok(code) => {
            println!("emitted {} bytes; checking with rustc", code.len());
            let root = gen_root().join(format!("c09-replay-{}", std::process::id()));
            let g = GenIdl { idl: Idl { name: String::new(), comments: vec![], members: vec![] }, text: text.to_string(), risky: None };
            check_batch(ctx, &root, 0, &[(0, g, code)]);
            let _ = std::fs::remove_dir_all(&root);
        }
        Emit::Err(e) => println!("Err: {}", e),
        Emit::Panic(p) => ctx.violation("c09:generate-panics:replay", json!({"engine": "c09", "definition": text, "message": p})),
    }
}

// helper for C08 (value generation) lives in c08.rs
pub fn field_map(fs: &[(String, Ty)]) -> Map<String, Value> {
    fs.iter().map(|(n, _)| (n.clone(), Value::Null)).collect()
}
