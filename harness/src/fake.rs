//! S7 scripted fake server: speaks raw bytes on one end of a socketpair; the other end is
//! wrapped into a varlink::Connection through its public reader/writer fields.
use crate::sock::{RawConn, ReadEv};
use serde_json::Value;
use std::io::BufReader;
use std::os::unix::net::UnixStream;
use std::sync::atomic::{AtomicU64, Ordering};
use std::sync::{Arc, Mutex, RwLock};
use std::thread::JoinHandle;
use std::time::Duration;
use varlink::Connection;

pub static CLOCK: AtomicU64 = AtomicU64::new(0);
pub fn tick() -> u64 {
    CLOCK.fetch_add(1, Ordering::SeqCst)
}

#[derive(Debug, Clone)]
pub enum SrvEv {
    /// a whole request frame arrived
    Request { t: u64, value: Value, raw_len: usize },
    /// a frame that is not valid JSON arrived
    Garbage { t: u64, raw: Vec<u8> },
    /// a reply frame was written
    Reply { t: u64, value: Value },
    Eof { t: u64, leftover: usize },
}

pub type SrvLog = Arc<Mutex<Vec<SrvEv>>>;

pub struct FakeServer {
    pub log: SrvLog,
    pub handle: Option<JoinHandle<()>>,
}

/// `script(request) -> replies` ; replies are written in order, each followed by NUL.
/// `delay_us`: pause before each reply (gives other client threads a chance to collide).
pub fn spawn_fake<F>(server_end: UnixStream, script: F, delay_us: u64) -> FakeServer
where
    F: Fn(&Value) -> Vec<Value> + Send + 'static,
{
    let log: SrvLog = Arc::new(Mutex::new(Vec::new()));
    let l2 = log.clone();
    let handle = std::thread::spawn(move || {
        let mut c = RawConn::from_unix(server_end);
        let mut nreplies = 0usize;
        loop {
            match c.read_frame(Duration::from_secs(30)) {
                ReadEv::Frame(f) => match serde_json::from_slice::<Value>(&f) {
                    Ok(v) => {
                        l2.lock().unwrap().push(SrvEv::Request { t: tick(), value: v.clone(), raw_len: f.len() + 1 });
                        for r in script(&v) {
                            if delay_us > 0 {
                                std::thread::sleep(Duration::from_micros(delay_us));
                            }
                            // {"__raw_text": "..."}: bytes to put on the wire as they are (a reply in
                            // a spelling of the script's choosing)
                            let mut b = match r.get("__raw_text").and_then(|t| t.as_str()) {
                                Some(t) => t.as_bytes().to_vec(),
                                None => serde_json::to_vec(&r).unwrap(),
                            };
                            b.push(0);
                            l2.lock().unwrap().push(SrvEv::Reply { t: tick(), value: r });
                            // every third reply reaches the client in two segments with a pause
                            // in between (cut before the NUL, or in the middle): a reply is
                            // complete at its NUL, not at the end of a read
                            nreplies += 1;
                            let cut = match nreplies % 6 {
                                0 => Some(b.len() - 1),
                                3 => Some(b.len() / 2),
                                _ => None,
                            };
                            let ok = match cut {
                                Some(k) if k > 0 && k < b.len() => {
                                    let first = c.write_all(&b[..k]).is_ok();
                                    std::thread::sleep(Duration::from_micros(300));
                                    first && c.write_all(&b[k..]).is_ok()
                                }
                                _ => c.write_all(&b).is_ok(),
                            };
                            if !ok {
                                return;
                            }
                        }
                    }
                    Err(_) => l2.lock().unwrap().push(SrvEv::Garbage { t: tick(), raw: f }),
                },
                ReadEv::Eof => {
                    l2.lock().unwrap().push(SrvEv::Eof { t: tick(), leftover: c.rbuf.len() });
                    return;
                }
                _ => return,
            }
        }
    });
    FakeServer { log, handle: Some(handle) }
}

/// A varlink client Connection over one end of a socketpair.
pub fn pair_connection() -> (Arc<RwLock<Connection>>, UnixStream) {
    let (a, b) = UnixStream::pair().expect("socketpair");
    let r: Box<dyn std::io::Read + Send + Sync> = Box::new(a.try_clone().expect("clone"));
    let w: Box<dyn std::io::Write + Send + Sync> = Box::new(a);
    let mut c = Connection::default();
    c.reader = Some(BufReader::new(r));
    c.writer = Some(w);
    (Arc::new(RwLock::new(c)), b)
}

impl FakeServer {
    pub fn join(&mut self) {
        if let Some(h) = self.handle.take() {
            let _ = h.join();
        }
    }
    pub fn events(&self) -> Vec<SrvEv> {
        self.log.lock().unwrap().clone()
    }
    pub fn requests(&self) -> Vec<Value> {
        self.events().into_iter().filter_map(|e| if let SrvEv::Request { value, .. } = e { Some(value) } else { None }).collect()
    }
}
