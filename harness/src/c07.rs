//! C07: one call at a time per client connection; outcomes reported faithfully.
use crate::core::*;
use crate::fake::*;
use crate::model::respell_text;
use serde_json::{json, Value};
use std::sync::atomic::{AtomicUsize, Ordering};
use std::sync::{Arc, Mutex, RwLock};
use varlink::{Connection, ErrorKind, MethodCall};

type MC = MethodCall<Value, Value, varlink::Error>;

// ---------------------------------------------------------------- (i) mapping

fn mapping(ctx: &Ctx) {
    let std_names = ["InterfaceNotFound", "InvalidParameter", "MethodNotFound", "MethodNotImplemented"];
    let std_param = ["interface", "parameter", "method", "method"];
    let mut replies: Vec<(Value, String)> = Vec::new();
    // success shapes
    for p in [None, Some(json!({})), Some(json!({"a": 1, "error": "not an error, a parameter"})), Some(json!({"nested": {"x": [1, 2, {"y": "ü"}]}}))] {
        let mut r = json!({});
        if let Some(p) = &p {
            r["parameters"] = p.clone();
        }
        replies.push((r.clone(), "ok".into()));
        let mut r2 = r.clone();
        r2["continues"] = json!(false);
        replies.push((r2, "ok".into()));
        let mut r3 = r.clone();
        r3["error"] = Value::Null;
        replies.push((r3, "ok".into()));
    }
    for (i, n) in std_names.iter().enumerate() {
        let full = format!("org.varlink.service.{}", n);
        replies.push((json!({"error": full, "parameters": {std_param[i]: "the-value"}}), format!("std:{}:the-value", n)));
        replies.push((json!({"error": full, "parameters": {std_param[i]: "ü\"\\"}}), format!("std:{}:ü\"\\", n)));
        replies.push((json!({"error": full, "parameters": {std_param[i]: "the-value", "extra": 1}}), format!("std:{}:the-value", n)));
        replies.push((json!({ "error": full }), format!("std:{}:?", n)));
        replies.push((json!({"error": full, "parameters": {std_param[i]: 5}}), format!("std:{}:?", n)));
        replies.push((json!({"error": full, "parameters": {}}), format!("std:{}:?", n)));
        replies.push((json!({"error": full, "parameters": "str"}), format!("std:{}:?", n)));
    }
    for n in ["com.example.Custom", "org.varlink.service.Other", "org.varlink.service.invalidparameter", "InvalidParameter", "", "org.varlink.service.InvalidParameter "] {
        replies.push((json!({"error": n, "parameters": {"k": [1, 2], "parameter": "p"}}), "custom".into()));
        replies.push((json!({ "error": n }), "custom".into()));
    }
    // every reply also in two other spellings of the same JSON value (member order, blanks and
    // line ends between tokens, \\u escapes)
    let mut sp_rng = Rng::lane(ctx.seed, 7700);
    let spelled: Vec<(Value, String, Value)> = replies
        .iter()
        .flat_map(|(r, w)| {
            let mut v = vec![(r.clone(), w.clone(), r.clone())];
            for _ in 0..2 {
                v.push((r.clone(), w.clone(), json!({"__raw_text": respell_text(r, &mut sp_rng)})));
            }
            v
        })
        .collect();
    for (reply, want, wire) in &spelled {
        let (conn, srv_end) = pair_connection();
        let r2 = wire.clone();
        let mut fs = spawn_fake(srv_end, move |_| vec![r2.clone()], 0);
        let res = MC::new(conn.clone(), "a.b.C", json!({"q": 1})).call();
        // connection must be usable again after the final reply
        let again = MC::new(conn.clone(), "a.b.D", json!({})).call();
        drop(conn);
        fs.join();
        ctx.case(Some(hash_of(&("mapping", reply.to_string(), wire.to_string()))));
        ctx.count("reply_objects_mapped", 1);
        let wit = |m: String| json!({"engine": "c07-mapping", "reply": reply, "as_written": wire.get("__raw_text").cloned().unwrap_or(Value::Null), "client_result": format!("{:?}", res.as_ref().map_err(|e| e.kind().clone())), "message": m});
        let has_err = reply.get("error").map(|e| !e.is_null()).unwrap_or(false);
        match (&res, has_err) {
            (Ok(v), false) => {
                let wantp = reply.get("parameters").cloned().unwrap_or(json!({}));
                if v != &wantp {
                    ctx.violation("c07:mapping:success-payload", wit(format!("returned {} expected {}", v, wantp)));
                }
            }
            (Ok(_), true) => ctx.violation("c07:mapping:error-reported-as-success", wit("reply has an error member but call() returned Ok".into())),
            (Err(e), false) => ctx.violation("c07:mapping:success-reported-as-error", wit(format!("reply has no error member but call() returned {:?}", e.kind()))),
            (Err(e), true) => {
                let k = e.kind();
                let parts: Vec<&str> = want.splitn(3, ':').collect();
                if parts[0] == "std" {
                    let (kind_ok, param) = match (parts[1], k) {
                        ("InterfaceNotFound", ErrorKind::InterfaceNotFound(p)) => (true, p.clone()),
                        ("InvalidParameter", ErrorKind::InvalidParameter(p)) => (true, p.clone()),
                        ("MethodNotFound", ErrorKind::MethodNotFound(p)) => (true, p.clone()),
                        ("MethodNotImplemented", ErrorKind::MethodNotImplemented(p)) => (true, p.clone()),
                        _ => (false, String::new()),
                    };
                    if !kind_ok {
                        ctx.violation(&format!("c07:mapping:standard-error-kind:{}", parts[1]), wit(format!("mapped to {:?}", k)));
                    } else if parts[2] != "?" && param != parts[2] {
                        ctx.violation(&format!("c07:mapping:standard-error-parameter:{}", parts[1]), wit(format!("parameter {:?} expected {:?}", param, parts[2])));
                    }
                } else {
                    match k {
                        ErrorKind::VarlinkErrorReply(r) => {
                            let back = serde_json::to_value(r).unwrap_or(Value::Null);
                            let mut w = reply.clone();
                            if let Some(o) = w.as_object_mut() {
                                o.retain(|_, v| !v.is_null());
                            }
                            if back != w {
                                ctx.violation("c07:mapping:custom-error-not-whole", wit(format!("carried reply {} != sent {}", back, w)));
                            }
                        }
                        other => ctx.violation("c07:mapping:custom-error-kind", wit(format!("mapped to {:?}", other))),
                    }
                }
            }
        }
        match again {
            Ok(_) if !has_err => {}
            Err(e) if has_err && !matches!(e.kind(), ErrorKind::ConnectionBusy) => {}
            Ok(_) => {}
            Err(e) => ctx.violation("c07:connection-not-reusable-after-final-reply", wit(format!("next call failed with {:?}", e.kind()))),
        }
    }
}

/// A final reply whose parameters do not fit the caller's reply type is still the final reply:
/// whatever the call reports, the connection is free afterwards.
#[derive(serde_derive::Deserialize, Debug)]
struct TypedReply {
    #[allow(dead_code)]
    a: i64,
}

fn typed_replies(ctx: &Ctx) {
    type TMC = MethodCall<Value, TypedReply, varlink::Error>;
    for params in [Some(json!({"a": "str"})), Some(json!({})), Some(json!({"a": 1})), Some(json!("str")), Some(json!([1])), Some(json!({"a": null})), Some(json!({"a": 1.5})), None] {
        for mode in ["call", "more"] {
            let mut fin = json!({});
            if let Some(p) = &params {
                fin["parameters"] = p.clone();
            }
            let script: Vec<Value> = if mode == "call" { vec![fin.clone()] } else { vec![json!({"continues": true, "parameters": {"a": 1}}), fin.clone()] };
            let (conn, srv_end) = pair_connection();
            let sc = script.clone();
            let mut fs = spawn_fake(srv_end, move |req| if req.get("method").and_then(|m| m.as_str()) == Some("a.b.Typed") { sc.clone() } else { vec![json!({"parameters": {"again": true}})] }, 0);
            let mut outcomes: Vec<String> = Vec::new();
            let r = std::panic::catch_unwind(std::panic::AssertUnwindSafe(|| {
                let mut mc = TMC::new(conn.clone(), "a.b.Typed", json!({}));
                if mode == "call" {
                    outcomes.push(format!("{:?}", mc.call().map(|_| "ok").map_err(|e| format!("{:?}", e.kind()))));
                } else {
                    match mc.more() {
                        Err(e) => outcomes.push(format!("more failed {:?}", e.kind())),
                        Ok(it) => {
                            for x in it.take(5) {
                                outcomes.push(format!("{:?}", x.map(|_| "ok").map_err(|e| format!("{:?}", e.kind()))));
                            }
                        }
                    }
                }
            }));
            let again = MC::new(conn.clone(), "a.b.Again", json!({})).call();
            drop(conn);
            fs.join();
            ctx.case(Some(hash_of(&("typed", mode, params.as_ref().map(|p| p.to_string())))));
            ctx.count("typed_reply_cases", 1);
            let wit = |m: String| json!({"engine": "c07-typed", "mode": mode, "final_reply": fin, "caller_reply_type": "struct { a: int }", "outcomes": outcomes, "message": m});
            if r.is_err() {
                ctx.violation("c07:typed:client-call-panicked", wit("the client call panicked".into()));
                continue;
            }
            if mode == "more" && outcomes.len() > 2 {
                ctx.violation("c07:typed:iterator-continues-after-final", wit(format!("{} items for a 2-frame stream", outcomes.len())));
            }
            match again {
                Ok(v) if v.get("again").is_some() => {}
                Ok(v) => ctx.violation("c07:delivery:reply-delivered-to-other-call", wit(format!("the next call was handed {}", v))),
                Err(e) => ctx.violation("c07:connection-not-reusable-after-final-reply", wit(format!("the call after a final reply that did not fit the reply type failed with {:?}", e.kind()))),
            }
        }
    }
}

/// "Fails immediately with a busy error": the service withholds the reply to thread A's call
/// until thread B's call has returned.  If B only returns once A's reply was let through, B was
/// waiting for it.
fn busy_is_immediate(ctx: &Ctx) {
    for mode in ["call", "more"] {
        for round in 0..ctx.tier.pick(3, 30) {
            let (conn, srv_end) = pair_connection();
            let gate = Arc::new(std::sync::atomic::AtomicBool::new(false));
            let g2 = gate.clone();
            let mut fs = spawn_fake(
                srv_end,
                move |req| {
                    if req.get("method").and_then(|m| m.as_str()) == Some("x.y.Held") {
                        // hold the reply back until the gate opens (10 s at most)
                        let t0 = std::time::Instant::now();
                        while !g2.load(Ordering::SeqCst) && t0.elapsed() < std::time::Duration::from_secs(10) {
                            std::thread::sleep(std::time::Duration::from_millis(2));
                        }
                        return vec![json!({"parameters": {"held": true}})];
                    }
                    vec![json!({"parameters": {"other": true}})]
                },
                0,
            );
            let ca = conn.clone();
            let a = std::thread::spawn(move || {
                let mut mc = MC::new(ca, "x.y.Held", json!({}));
                if mode == "call" {
                    mc.call().map(|_| ()).map_err(|e| format!("{:?}", e.kind()))
                } else {
                    match mc.more() {
                        Ok(it) => {
                            let mut r = Ok(());
                            for x in it {
                                if let Err(e) = x {
                                    r = Err(format!("{:?}", e.kind()));
                                }
                            }
                            r
                        }
                        Err(e) => Err(format!("{:?}", e.kind())),
                    }
                }
            });
            // wait until A's request is on the wire
            let t0 = std::time::Instant::now();
            while fs.requests().is_empty() && t0.elapsed() < std::time::Duration::from_secs(10) {
                std::thread::sleep(std::time::Duration::from_millis(1));
            }
            let cb = conn.clone();
            let b = std::thread::spawn(move || MC::new(cb, "x.y.Other", json!({})).call().map(|_| "ok".to_string()).map_err(|e| format!("{:?}", e.kind())));
            let t1 = std::time::Instant::now();
            while !b.is_finished() && t1.elapsed() < std::time::Duration::from_secs(3) {
                std::thread::sleep(std::time::Duration::from_millis(1));
            }
            let returned_while_held = b.is_finished();
            gate.store(true, Ordering::SeqCst);
            let rb = b.join().unwrap_or_else(|_| Err("panicked".into()));
            let ra = a.join().unwrap_or_else(|_| Err("panicked".into()));
            drop(conn);
            fs.join();
            let seen: Vec<String> = fs.requests().iter().map(|r| r.get("method").and_then(|m| m.as_str()).unwrap_or("?").to_string()).collect();
            ctx.case(Some(hash_of(&("busy-immediate", mode, round))));
            ctx.count("held_reply_rounds", 1);
            let wit = |m: String| json!({"engine": "c07-held-reply", "mode": mode, "second_call": format!("{:?}", rb), "first_call": format!("{:?}", ra), "server_saw": seen, "message": m});
            if !returned_while_held {
                ctx.violation("c07:exclusivity:busy-call-waits-for-the-outstanding-reply", wit("the second thread's call had not returned 3 s after it was made, while the first call's reply was being withheld; it returned once that reply was let through".into()));
            } else if rb != Err("ConnectionBusy".to_string()) {
                ctx.violation("c07:exclusivity:call-while-iterating-not-busy", wit("the second thread's call did not fail with ConnectionBusy while the first call was outstanding".into()));
            } else if seen.iter().any(|m| m == "x.y.Other") {
                ctx.violation("c07:conservation:requests-on-wire-differ", wit("the refused call's request reached the service".into()));
            } else if ra.is_err() {
                ctx.violation("c07:delivery:wrong-or-failed-reply", wit("the first call did not get its reply".into()));
            }
        }
    }
}

// ---------------------------------------------------------------- (ii) sequential op histories

#[derive(Clone, Copy, Debug, PartialEq, Eq, Hash)]
enum Op {
    Call,
    More0,
    More2,
    /// stream of 3 frames whose middle one is an error reply carrying continues:true
    More2ErrMid,
    /// stream whose final frame is an error reply
    More2ErrLast,
    Next,
    Oneway,
    Resend,
    DropIter,
    /// drop the call object of an iteration whose final reply has not been consumed
    Abandon,
    /// a second send (more / call / oneway) on the call object that is in the middle of its
    /// iteration: refused, nothing written, and the iteration goes on where it was
    ResendIter,
}
const OPS: &[Op] = &[Op::Call, Op::More0, Op::More2, Op::More2ErrMid, Op::More2ErrLast, Op::Next, Op::Oneway, Op::Resend, Op::DropIter, Op::Abandon, Op::ResendIter];

fn seq_script(v: &Value) -> Vec<Value> {
    if v.get("oneway") == Some(&Value::Bool(true)) {
        return vec![];
    }
    let token = v.get("parameters").and_then(|p| p.get("token")).cloned().unwrap_or(Value::Null);
    let k = v.get("parameters").and_then(|p| p.get("k")).and_then(|k| k.as_u64()).unwrap_or(0);
    let err_at: Vec<u64> = v.get("parameters").and_then(|p| p.get("err_at")).and_then(|a| a.as_array()).map(|a| a.iter().filter_map(|x| x.as_u64()).collect()).unwrap_or_default();
    if v.get("more") == Some(&Value::Bool(true)) {
        // frames 0..k-1 carry continues:true, frame k is final; positions in err_at are error
        // replies (an error reply that still carries continues:true does not end the stream)
        (0..=k)
            .map(|i| {
                let mut f = if err_at.contains(&i) { json!({"error": "x.y.StreamErr", "parameters": {"i": i, "token": token}}) } else { json!({"parameters": {"i": i, "token": token}}) };
                if i < k {
                    f["continues"] = json!(true);
                }
                f
            })
            .collect()
    } else {
        vec![json!({"parameters": {"token": token}})]
    }
}

/// does `item` (an iterator item) correspond to frame `idx` of the stream for `tok`?
fn item_matches(item: &Option<Result<Value, varlink::Error>>, tok: &str, idx: u64, is_err: bool) -> bool {
    match item {
        Some(Ok(v)) => !is_err && v.get("token").and_then(|t| t.as_str()) == Some(tok) && v.get("i").and_then(|x| x.as_u64()) == Some(idx),
        Some(Err(e)) => match e.kind() {
            ErrorKind::VarlinkErrorReply(r) => is_err && r.error.as_deref() == Some("x.y.StreamErr") && r.parameters.as_ref().and_then(|p| p.get("token")).and_then(|t| t.as_str()) == Some(tok) && r.parameters.as_ref().and_then(|p| p.get("i")).and_then(|x| x.as_u64()) == Some(idx),
            _ => false,
        },
        None => false,
    }
}

fn kind_name(e: &varlink::Error) -> String {
    format!("{:?}", e.kind())
}

fn sequential_case(ctx: &Ctx, ops: &[Op], case_id: usize) {
    let (conn, srv_end) = pair_connection();
    let mut fs = spawn_fake(srv_end, seq_script, 0);
    // model
    let mut expected_requests: Vec<String> = Vec::new(); // tokens the server must see, in order
    let mut iter: Option<(MC, String, u64, u64, Vec<u64>)> = None; // (call, token, k, next index, error positions)
    let mut last: Option<MC> = None;
    let mut busy_outcomes = 0;
    let mut trace: Vec<String> = Vec::new();
    let mut fail: Option<(String, String)> = None;
    // an iteration was dropped with replies still owed to it: from then on the statement only
    // fixes that no call may be handed a reply it did not request (refusing is fine, so is an
    // implementation that drains); a call that succeeds must have put its request on the wire
    let mut abandoned = false;
    for (i, op) in ops.iter().enumerate() {
        let token = format!("c{}o{}", case_id, i);
        let busy = iter.is_some();
        match op {
            Op::Abandon => {
                if let Some((mc, tok, _, idx, _)) = iter.take() {
                    trace.push(format!("Abandon({} after {} items)", tok, idx));
                    drop(mc);
                    abandoned = true;
                }
            }
            Op::Call | Op::Oneway => {
                let mut mc = MC::new(conn.clone(), "x.y.M", json!({ "token": token }));
                let r = if *op == Op::Call { mc.call().map(Some) } else { mc.oneway().map(|_| None) };
                trace.push(format!("{:?}->{}", op, match &r {
                    Ok(v) => format!("Ok({:?})", v),
                    Err(e) => kind_name(e),
                }));
                if abandoned && !busy {
                    match r {
                        Err(_) => busy_outcomes += 1,
                        Ok(Some(v)) if v.get("token").and_then(|t| t.as_str()) != Some(&token) => {
                            fail = Some(("c07:delivery:reply-delivered-to-other-call".into(), format!("op {} {:?} after an abandoned iteration was handed {} (its own token is {})", i, op, v, token)));
                            break;
                        }
                        Ok(_) => expected_requests.push(token.clone()),
                    }
                    last = Some(mc);
                    continue;
                }
                match (busy, r) {
                    (true, Err(e)) if matches!(e.kind(), ErrorKind::ConnectionBusy) => busy_outcomes += 1,
                    (true, other) => {
                        fail = Some(("c07:exclusivity:call-while-iterating-not-busy".into(), format!("op {} {:?} while an iteration is outstanding returned {:?}", i, op, other.map_err(|e| kind_name(&e)))));
                        break;
                    }
                    (false, Ok(Some(v))) if v.get("token").and_then(|t| t.as_str()) == Some(&token) => expected_requests.push(token.clone()),
                    (false, Ok(None)) => expected_requests.push(token.clone()),
                    (false, other) => {
                        fail = Some(("c07:delivery:wrong-or-failed-reply".into(), format!("op {} {:?} on a free connection returned {:?}", i, op, other.map_err(|e| kind_name(&e)))));
                        break;
                    }
                }
                last = Some(mc);
            }
            Op::More0 | Op::More2 | Op::More2ErrMid | Op::More2ErrLast => {
                let k = if *op == Op::More0 { 0 } else { 2 };
                let err_at: Vec<u64> = match op {
                    Op::More2ErrMid => vec![1],
                    Op::More2ErrLast => vec![2],
                    _ => vec![],
                };
                let mut mc = MC::new(conn.clone(), "x.y.S", json!({"token": token, "k": k, "err_at": err_at}));
                let r = mc.more().map(|_| ());
                trace.push(format!("{:?}->{:?}", op, r.as_ref().map_err(kind_name)));
                match (busy, r) {
                    (true, Err(e)) if matches!(e.kind(), ErrorKind::ConnectionBusy) => {
                        busy_outcomes += 1;
                        last = Some(mc);
                    }
                    (true, other) => {
                        fail = Some(("c07:exclusivity:more-while-iterating-not-busy".into(), format!("op {} {:?} while an iteration is outstanding returned {:?}", i, op, other.map_err(|e| kind_name(&e)))));
                        break;
                    }
                    (false, Ok(())) => {
                        expected_requests.push(token.clone());
                        iter = Some((mc, token.clone(), k, 0, err_at.clone()));
                    }
                    (false, Err(_)) if abandoned => {
                        busy_outcomes += 1;
                        last = Some(mc);
                    }
                    (false, Err(e)) => {
                        fail = Some(("c07:more-failed-on-free-connection".into(), format!("op {} {:?}: {}", i, op, kind_name(&e))));
                        break;
                    }
                }
            }
            Op::Next => {
                if let Some((mut mc, tok, k, idx, errs)) = iter.take() {
                    let item = mc.next();
                    trace.push(format!("Next->{:?}", item.as_ref().map(|r| r.as_ref().map_err(kind_name))));
                    if item_matches(&item, &tok, idx, errs.contains(&idx)) {
                        if idx < k {
                            iter = Some((mc, tok, k, idx + 1, errs));
                        } else {
                            // final reply consumed: iterator must now end and the connection be free
                            if let Some(x) = mc.next() {
                                fail = Some(("c07:iterator-continues-after-final".into(), format!("op {}: item after the final reply: {:?}", i, x.map_err(|e| kind_name(&e)))));
                                break;
                            }
                            last = Some(mc);
                        }
                    } else {
                        let sig = if abandoned { "c07:delivery:reply-delivered-to-other-call" } else { "c07:delivery:iterator-item-wrong" };
                        fail = Some((sig.into(), format!("op {} expected item {} of {} (error={}): {:?}", i, idx, tok, errs.contains(&idx), item.map(|r| r.map_err(|e| kind_name(&e))))));
                        break;
                    }
                }
            }
            Op::Resend => {
                if let Some(mc) = last.as_mut() {
                    let r = mc.call();
                    trace.push(format!("Resend->{:?}", r.as_ref().map_err(kind_name)));
                    match r {
                        Err(e) if matches!(e.kind(), ErrorKind::MethodCalledAlready) || (busy && matches!(e.kind(), ErrorKind::ConnectionBusy)) => {}
                        other => {
                            fail = Some(("c07:call-object-sent-twice".into(), format!("op {}: second send on a used call object returned {:?}", i, other.map_err(|e| kind_name(&e)))));
                            break;
                        }
                    }
                }
            }
            Op::ResendIter => {
                if let Some((mc, _, _, _, _)) = iter.as_mut() {
                    // all three kinds of send, one after the other
                    for which in 0..3 {
                        let r: Result<(), varlink::Error> = match which {
                            0 => mc.more().map(|_| ()),
                            1 => mc.call().map(|_| ()),
                            _ => mc.oneway(),
                        };
                        trace.push(format!("ResendIter{}->{:?}", which, r.as_ref().map_err(kind_name)));
                        match r {
                            Err(e) if matches!(e.kind(), ErrorKind::MethodCalledAlready | ErrorKind::ConnectionBusy) => {}
                            other => {
                                fail = Some(("c07:call-object-sent-twice".into(), format!("op {}: second send ({}) on the iterating call object returned {:?}", i, ["more", "call", "oneway"][which], other.map_err(|e| kind_name(&e)))));
                                break;
                            }
                        }
                    }
                    if fail.is_some() {
                        break;
                    }
                }
            }
            Op::DropIter => {
                // statement is silent on abandoning an iteration; drain it instead so the
                // model stays decided: consume all remaining items
                if let Some((mut mc, tok, k, mut idx, errs)) = iter.take() {
                    while idx <= k {
                        let item = mc.next();
                        if item_matches(&item, &tok, idx, errs.contains(&idx)) {
                            idx += 1;
                        } else {
                            fail = Some(("c07:delivery:iterator-item-wrong".into(), format!("op {} draining {}: item {} (error={}): {:?}", i, tok, idx, errs.contains(&idx), item.map(|r| r.map_err(|e| kind_name(&e))))));
                            break;
                        }
                    }
                    if fail.is_some() {
                        break;
                    }
                    trace.push("Drain".into());
                    last = Some(mc);
                }
            }
        }
    }
    // finish any open iteration so that the server drains, then close
    if let Some((mut mc, _, _, _, _)) = iter.take() {
        // bounded: on a broken tree an iteration may yield errors for ever
        for item in mc.by_ref().take(64) {
            if item.is_err() {
                break;
            }
        }
    }
    drop(last);
    drop(conn);
    fs.join();
    let seen: Vec<String> = fs.requests().iter().map(|r| r.get("parameters").and_then(|p| p.get("token")).and_then(|t| t.as_str()).unwrap_or("?").to_string()).collect();
    let garbage = fs.events().iter().any(|e| matches!(e, SrvEv::Garbage { .. }) || matches!(e, SrvEv::Eof { leftover, .. } if *leftover > 0));
    ctx.case(if ops.len() >= 2 { Some(hash_of(&("seq", ops))) } else { None });
    ctx.count("client_ops_observed", ops.len() as u64);
    ctx.count("busy_outcomes_observed", busy_outcomes);
    let wit = |m: String| json!({"engine": "c07-sequential", "ops": format!("{:?}", ops), "trace": trace, "server_saw_tokens": seen, "expected_tokens": expected_requests, "message": m});
    if let Some((sig, m)) = fail {
        ctx.violation(&sig, wit(m));
    } else if garbage {
        ctx.violation("c07:server-saw-partial-or-garbage-bytes", wit("the fake server received bytes that are not whole requests".into()));
    } else if seen != expected_requests {
        ctx.violation("c07:conservation:requests-on-wire-differ", wit("requests seen by the server differ from the calls that were expected to go out (a busy/refused call wrote bytes, or a request was lost)".into()));
    }
}

fn nth_ops(len: usize, mut idx: usize) -> Vec<Op> {
    (0..len)
        .map(|_| {
            let o = OPS[idx % OPS.len()];
            idx /= OPS.len();
            o
        })
        .collect()
}

// ---------------------------------------------------------------- (iii) threads

#[derive(Debug, Clone)]
struct CliEv {
    t_call: u64,
    t_ret: u64,
    thread: usize,
    token: String,
    kind: &'static str,
    outcome: String,
}

pub fn threaded_round(ctx: &Ctx, nthreads: usize, ops_per_thread: usize, delay_us: u64, seed: u64, round: usize) {
    let (conn, srv_end) = pair_connection();
    let mut fs = spawn_fake(srv_end, seq_script, delay_us);
    let log: Arc<Mutex<Vec<CliEv>>> = Arc::new(Mutex::new(Vec::new()));
    let bad: Arc<Mutex<Vec<String>>> = Arc::new(Mutex::new(Vec::new()));
    let ok_count = Arc::new(AtomicUsize::new(0));
    std::thread::scope(|s| {
        for th in 0..nthreads {
            let conn: Arc<RwLock<Connection>> = conn.clone();
            let log = log.clone();
            let bad = bad.clone();
            let ok_count = ok_count.clone();
            s.spawn(move || {
                let mut rng = Rng::lane(seed, (round * 64 + th) as u64);
                for i in 0..ops_per_thread {
                    let token = format!("r{}t{}i{}", round, th, i);
                    let which = rng.below(10);
                    let t_call = tick();
                    let op = std::panic::catch_unwind(std::panic::AssertUnwindSafe(|| -> (&'static str, String) { if which < 6 {
                        match MC::new(conn.clone(), "x.y.M", json!({ "token": token })).call() {
                            Ok(v) if v.get("token").and_then(|t| t.as_str()) == Some(&token) => ("call", "ok".into()),
                            Ok(v) => ("call", format!("FOREIGN:{}", v)),
                            Err(e) if matches!(e.kind(), ErrorKind::ConnectionBusy) => ("call", "busy".into()),
                            Err(e) => ("call", format!("ERR:{:?}", e.kind())),
                        }
                    } else if which < 8 {
                        match MC::new(conn.clone(), "x.y.O", json!({ "token": token })).oneway() {
                            Ok(()) => ("oneway", "ok".into()),
                            Err(e) if matches!(e.kind(), ErrorKind::ConnectionBusy) => ("oneway", "busy".into()),
                            Err(e) => ("oneway", format!("ERR:{:?}", e.kind())),
                        }
                    } else {
                        let err_mid = rng.chance(1, 2);
                        let mut mc = MC::new(conn.clone(), "x.y.S", json!({"token": token, "k": 2, "err_at": if err_mid { vec![1] } else { vec![] }}));
                        let r = match mc.more() {
                            Err(e) if matches!(e.kind(), ErrorKind::ConnectionBusy) => "busy".to_string(),
                            Err(e) => format!("ERR:{:?}", e.kind()),
                            Ok(it) => {
                                let mut idx = 0u64;
                                let mut res = "ok".to_string();
                                for item in it {
                                    let it2 = Some(item);
                                    if item_matches(&it2, &token, idx, err_mid && idx == 1) {
                                        idx += 1;
                                    } else {
                                        res = match it2 {
                                            Some(Ok(v)) => format!("FOREIGN:{}", v),
                                            Some(Err(e)) => format!("ERR:{:?}", e.kind()),
                                            None => "ERR:none".into(),
                                        };
                                        break;
                                    }
                                    if rng.chance(1, 2) {
                                        std::thread::yield_now();
                                    }
                                }
                                if res == "ok" && idx != 3 {
                                    res = format!("ERR:iterator yielded {} items", idx);
                                }
                                res
                            }
                        };
                        ("more", r)
                    } }));
                    // a panic inside a client call (e.g. an unwrap on streams another thread has
                    // taken) is neither the caller's own reply nor ConnectionBusy
                    let panicked = op.is_err();
                    let (kind, outcome): (&'static str, String) = match op {
                        Ok(x) => x,
                        Err(p) => ("?", format!("PANIC:{}", p.downcast_ref::<String>().cloned().or_else(|| p.downcast_ref::<&str>().map(|s| s.to_string())).unwrap_or_default())),
                    };
                    let t_ret = tick();
                    if outcome == "ok" {
                        ok_count.fetch_add(1, Ordering::SeqCst);
                    } else if outcome != "busy" {
                        bad.lock().unwrap().push(format!("thread {} {} {} -> {}", th, kind, token, outcome));
                    }
                    log.lock().unwrap().push(CliEv { t_call, t_ret, thread: th, token, kind, outcome });
                    if panicked {
                        break;
                    }
                    if rng.chance(1, 3) {
                        std::thread::yield_now();
                    }
                }
            });
        }
    });
    drop(conn);
    fs.join();
    let evs = log.lock().unwrap().clone();
    let seen: Vec<String> = fs.requests().iter().map(|r| r.get("parameters").and_then(|p| p.get("token")).and_then(|t| t.as_str()).unwrap_or("?").to_string()).collect();
    let garbage = fs.events().iter().any(|e| matches!(e, SrvEv::Garbage { .. }) || matches!(e, SrvEv::Eof { leftover, .. } if *leftover > 0));
    let oks: std::collections::HashSet<&str> = evs.iter().filter(|e| e.outcome == "ok").map(|e| e.token.as_str()).collect();
    let busys = evs.iter().filter(|e| e.outcome == "busy").count();
    // overlapping (in logical time) operations of different threads
    let mut overlapped = false;
    let mut sorted = evs.clone();
    sorted.sort_by_key(|e| e.t_call);
    for w in sorted.windows(2) {
        if w[1].t_call < w[0].t_ret && w[0].thread != w[1].thread {
            overlapped = true;
        }
    }
    let inter: Vec<(usize, &str)> = sorted.iter().map(|e| (e.thread, if e.outcome == "busy" { "b" } else { "o" })).collect();
    ctx.set_insert("distinct_interleavings_observed", hash_of(&inter));
    ctx.case(if busys > 0 || overlapped { Some(hash_of(&("threads", nthreads, hash_of(&inter)))) } else { None });
    ctx.count("threaded_ops_observed", evs.len() as u64);
    ctx.count("busy_outcomes_observed", busys as u64);
    ctx.count("server_events_observed", fs.events().len() as u64);
    let wit = |m: String| json!({"engine": "c07-threads", "threads": nthreads, "ops_per_thread": ops_per_thread, "delay_us": delay_us, "seed": seed, "round": round, "message": m,
        "client_events": evs.iter().take(60).map(|e| format!("{:?}", e)).collect::<Vec<_>>(), "server_saw_tokens": seen.iter().take(80).collect::<Vec<_>>()});
    let b = bad.lock().unwrap().clone();
    if !b.is_empty() {
        let sig = if b.iter().any(|m| m.contains("PANIC:")) { "c07:threads:client-call-panicked" } else if b[0].contains("FOREIGN") { "c07:delivery:reply-delivered-to-other-call" } else { "c07:threads:unexpected-outcome" };
        ctx.violation(sig, wit(format!("{:?}", &b[..b.len().min(5)])));
        return;
    }
    if garbage {
        ctx.violation("c07:server-saw-partial-or-garbage-bytes", wit("interleaved or partial request bytes reached the server".into()));
        return;
    }
    let seen_set: std::collections::HashSet<&str> = seen.iter().map(|s| s.as_str()).collect();
    if seen.len() != oks.len() || seen_set != oks {
        let extra: Vec<&&str> = seen_set.difference(&oks).take(5).collect();
        let missing: Vec<&&str> = oks.difference(&seen_set).take(5).collect();
        ctx.violation("c07:conservation:requests-on-wire-differ", wit(format!("server saw {} requests, {} calls succeeded; on wire but not ok: {:?}; ok but not on wire: {:?}", seen.len(), oks.len(), extra, missing)));
    }
}

pub fn main(ctx: &Ctx) -> i32 {
    ctx.set_rule("(i) ~60 reply objects (success shapes, 4 standard errors x {parameter, extra member, no parameters, ill-typed, empty}, custom/near-miss names) each through call(); (ii) all sequences over {call, more(0), more(2), more with error frames, next, oneway, resend-on-used-object, drain, abandon} up to length 4 (quick) / 6 (thorough) against a scripted fake server with a request-conservation check; (iii) 2-8 threads sharing one connection, fake server delaying replies, per-call outcome must be own token or ConnectionBusy and requests on the wire = successful calls; distinct = reply object / op sequence / (threads, observed interleaving); non-trivial = >=2 ops / >=1 busy outcome or >=2 threads overlapping in logical time");
    ctx.assume("standard errors with missing or ill-typed parameters only need the right kind (their parameter default is not specified)");
    ctx.assume("after an iteration is abandoned (call object dropped with replies still owed) the statement does not say whether the connection stays busy; judged there: no later call is handed a reply it did not request, and a refused call writes nothing");
    mapping(ctx);
    typed_replies(ctx);
    busy_is_immediate(ctx);
    let maxlen = ctx.tier.pick(4, 6);
    let nw = workers();
    for len in 1..=maxlen {
        let total = OPS.len().pow(len as u32);
        par(nw, |w| {
            let mut idx = w;
            while idx < total {
                let ops = nth_ops(len, idx);
                sequential_case(ctx, &ops, idx);
                if (idx % 997 == 0 && len >= 3) || (ctx.want_sample() && len >= 2) {
                    ctx.sample(json!({"sequential_ops": format!("{:?}", ops)}));
                }
                idx += nw;
            }
        });
    }
    let rounds = ctx.tier.pick(600usize, 5000usize);
    par(4, |w| {
        let mut rng = Rng::lane(ctx.seed, 800 + w as u64);
        let mut r = w;
        while r < rounds {
            let nt = rng.range(2, 8);
            let delay = *rng.pick(&[0u64, 0, 50, 200, 1000, 2000]);
            threaded_round(ctx, nt, ctx.tier.pick(50, 50) / (nt / 2).max(1), delay, ctx.seed, r);
            r += 4;
        }
    });
    ctx.sample(json!({"threaded": "2-8 threads x call/oneway/more(2) on one shared Arc<RwLock<Connection>> over a socketpair; fake server delays 0-2 ms", "rounds": rounds}));
    ctx.finish(ctx.tier.pick(2_000, 20_000))
}

pub fn replay(ctx: &Ctx, w: &Value) {
    match w.get("engine").and_then(|v| v.as_str()) {
        Some("c07-threads") => {
            let g = |k: &str| w.get(k).and_then(|v| v.as_u64()).unwrap_or(0);
            for _ in 0..20 {
                threaded_round(ctx, g("threads") as usize, g("ops_per_thread") as usize, g("delay_us"), g("seed"), g("round") as usize);
            }
        }
        Some("c07-sequential") => {
            let s = w.get("ops").and_then(|v| v.as_str()).unwrap_or("[]");
            let ops: Vec<Op> = s.trim_matches(|c| c == '[' || c == ']').split(", ").filter_map(|n| OPS.iter().find(|o| format!("{:?}", o) == n).copied()).collect();
            sequential_case(ctx, &ops, 0);
        }
        _ => mapping(ctx),
    }
}
