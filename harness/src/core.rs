//! Shared plumbing: PRNG, evidence writer, violation/replay writer, known-findings file.
use serde_json::{json, Map, Value};
use std::collections::hash_map::DefaultHasher;
use std::collections::{BTreeMap, HashSet};
use std::hash::{Hash, Hasher};
use std::io::Write;
use std::path::PathBuf;
use std::sync::atomic::{AtomicUsize, Ordering};
use std::sync::Mutex;
use std::time::Instant;

pub fn verif_dir() -> PathBuf {
    std::env::var_os("VERIF_DIR").map(PathBuf::from).unwrap_or_else(|| PathBuf::from("/verif"))
}

/// SplitMix64 — in-tree so that seeds replay bit-for-bit without the `rand` crate.
#[derive(Clone)]
pub struct Rng(pub u64);
impl Rng {
    pub fn new(seed: u64) -> Rng {
        let mut r = Rng(seed ^ 0x9E37_79B9_7F4A_7C15);
        r.next();
        r
    }
    /// An independent stream for (seed, lane): used so that worker threads do not share state.
    pub fn lane(seed: u64, lane: u64) -> Rng {
        Rng::new(seed.wrapping_mul(0x2545_F491_4F6C_DD1D) ^ lane.wrapping_mul(0xD6E8_FEB8_6659_FD93))
    }
    pub fn next(&mut self) -> u64 {
        self.0 = self.0.wrapping_add(0x9E37_79B9_7F4A_7C15);
        let mut z = self.0;
        z = (z ^ (z >> 30)).wrapping_mul(0xBF58_476D_1CE4_E5B9);
        z = (z ^ (z >> 27)).wrapping_mul(0x94D0_49BB_1331_11EB);
        z ^ (z >> 31)
    }
    pub fn below(&mut self, n: usize) -> usize {
        if n == 0 {
            0
        } else {
            (self.next() % n as u64) as usize
        }
    }
    pub fn range(&mut self, lo: usize, hi_incl: usize) -> usize {
        lo + self.below(hi_incl - lo + 1)
    }
    pub fn chance(&mut self, num: usize, den: usize) -> bool {
        self.below(den) < num
    }
    pub fn pick_str<'a>(&mut self, v: &[&'a str]) -> &'a str {
        v[self.below(v.len())]
    }
    pub fn pick<'a, T>(&mut self, v: &'a [T]) -> &'a T {
        &v[self.below(v.len())]
    }
}

pub fn hash_of<T: Hash + ?Sized>(t: &T) -> u64 {
    let mut h = DefaultHasher::new();
    t.hash(&mut h);
    h.finish()
}

pub fn hex(b: &[u8]) -> String {
    let mut s = String::with_capacity(b.len() * 2);
    for x in b {
        s.push_str(&format!("{:02x}", x));
    }
    s
}
pub fn unhex(s: &str) -> Vec<u8> {
    (0..s.len() / 2).map(|i| u8::from_str_radix(&s[2 * i..2 * i + 2], 16).unwrap_or(0)).collect()
}
/// Printable rendering of wire bytes for samples/witnesses (NUL shown as \0).
pub fn show(b: &[u8]) -> String {
    let mut s = String::new();
    for &c in b.iter().take(600) {
        match c {
            0 => s.push_str("\\0"),
            b'\n' => s.push_str("\\n"),
            0x20..=0x7e => s.push(c as char),
            _ => s.push_str(&format!("\\x{:02x}", c)),
        }
    }
    if b.len() > 600 {
        s.push_str(&format!("...(+{} bytes)", b.len() - 600));
    }
    s
}

#[derive(Clone, Copy, PartialEq, Eq, Debug)]
pub enum Tier {
    Quick,
    Thorough,
}
impl Tier {
    pub fn name(self) -> &'static str {
        match self {
            Tier::Quick => "quick",
            Tier::Thorough => "thorough",
        }
    }
    pub fn pick<T>(self, q: T, t: T) -> T {
        match self {
            Tier::Quick => q,
            Tier::Thorough => t,
        }
    }
}

pub struct Finding {
    pub property: String,
    pub sig: String,
    pub what: String,
}

pub fn load_findings() -> Vec<Finding> {
    let p = verif_dir().join("known_findings.txt");
    let mut v = Vec::new();
    if let Ok(s) = std::fs::read_to_string(p) {
        for l in s.lines() {
            let l = l.trim();
            if let Some(rest) = l.strip_prefix("finding:") {
                // finding: property=<id> sig=<sig> :: <what>
                let (head, what) = match rest.split_once("::") {
                    Some((h, w)) => (h.trim(), w.trim()),
                    None => (rest.trim(), ""),
                };
                let mut prop = String::new();
                let mut sig = String::new();
                for tok in head.split_whitespace() {
                    if let Some(p) = tok.strip_prefix("property=") {
                        prop = p.to_string();
                    } else if let Some(s) = tok.strip_prefix("sig=") {
                        sig = s.to_string();
                    }
                }
                if !prop.is_empty() && !sig.is_empty() {
                    v.push(Finding { property: prop, sig, what: what.to_string() });
                }
            }
        }
    }
    v
}

/// Collects everything a check run observed and writes evidence/<id>.json at the end.
/// Thread-safe: workers call `case`, `violation`, `inconclusive` concurrently.
pub struct Ctx {
    pub id: String,
    pub tier: Tier,
    pub seed: u64,
    pub level: &'static str,
    start: Instant,
    inner: Mutex<Inner>,
    viol_n: AtomicUsize,
    findings: Vec<Finding>,
    pub replay_mode: bool,
}

struct Inner {
    evaluations: u64,
    distinct: HashSet<u64>,
    samples: Vec<Value>,
    sample_cap: usize,
    counters: BTreeMap<String, u64>,
    sets: BTreeMap<String, HashSet<u64>>,
    extra: Map<String, Value>,
    assumptions: Vec<String>,
    rule: String,
    violations: u64,
    violation_sigs: HashSet<String>,
    known_seen: BTreeMap<String, u64>,
    inconclusive: u64,
    inconclusive_samples: Vec<Value>,
    exhaustive: Option<bool>,
}

impl Ctx {
    pub fn new(id: &str, tier: Tier, seed: u64, level: &'static str) -> Ctx {
        Ctx {
            id: id.to_string(),
            tier,
            seed,
            level,
            start: Instant::now(),
            inner: Mutex::new(Inner {
                evaluations: 0,
                distinct: HashSet::new(),
                samples: Vec::new(),
                sample_cap: 12,
                counters: BTreeMap::new(),
                sets: BTreeMap::new(),
                extra: Map::new(),
                assumptions: Vec::new(),
                rule: String::new(),
                violations: 0,
                violation_sigs: HashSet::new(),
                known_seen: BTreeMap::new(),
                inconclusive: 0,
                inconclusive_samples: Vec::new(),
                exhaustive: None,
            }),
            viol_n: AtomicUsize::new(0),
            findings: load_findings(),
            replay_mode: false,
        }
    }
    pub fn elapsed(&self) -> f64 {
        self.start.elapsed().as_secs_f64()
    }
    pub fn set_rule(&self, r: &str) {
        self.inner.lock().unwrap().rule = r.to_string();
    }
    pub fn assume(&self, a: &str) {
        self.inner.lock().unwrap().assumptions.push(a.to_string());
    }
    pub fn set_exhaustive(&self, b: bool) {
        self.inner.lock().unwrap().exhaustive = Some(b);
    }
    pub fn extra(&self, k: &str, v: Value) {
        self.inner.lock().unwrap().extra.insert(k.to_string(), v);
    }
    /// One judged execution. `descriptor` is the hash of its canonical descriptor if it is
    /// non-trivial by the property's rule, None if it is trivial.
    pub fn case(&self, descriptor: Option<u64>) {
        let mut i = self.inner.lock().unwrap();
        i.evaluations += 1;
        if let Some(d) = descriptor {
            i.distinct.insert(d);
        }
    }
    pub fn cases(&self, n: u64, descriptors: impl IntoIterator<Item = u64>) {
        let mut i = self.inner.lock().unwrap();
        i.evaluations += n;
        for d in descriptors {
            i.distinct.insert(d);
        }
    }
    pub fn count(&self, k: &str, n: u64) {
        let mut i = self.inner.lock().unwrap();
        *i.counters.entry(k.to_string()).or_insert(0) += n;
    }
    pub fn get_count(&self, k: &str) -> u64 {
        *self.inner.lock().unwrap().counters.get(k).unwrap_or(&0)
    }
    /// Distinct-set counter (e.g. distinct schedules / states / interleavings seen).
    pub fn set_insert(&self, k: &str, h: u64) {
        let mut i = self.inner.lock().unwrap();
        i.sets.entry(k.to_string()).or_default().insert(h);
    }
    /// true while fewer than 3 samples were recorded (engines sample their first cases
    /// unconditionally so that an evidence file never lacks samples)
    pub fn want_sample(&self) -> bool {
        self.inner.lock().unwrap().samples.len() < 3
    }
    pub fn sample(&self, v: Value) {
        let mut i = self.inner.lock().unwrap();
        if i.samples.len() < i.sample_cap {
            i.samples.push(v);
        }
    }
    /// Sample with reservoir-ish spreading: keep if fewer than cap, else replace with prob.
    pub fn sample_spread(&self, rng: &mut Rng, v: Value) {
        let mut i = self.inner.lock().unwrap();
        if i.samples.len() < i.sample_cap {
            i.samples.push(v);
        } else if rng.chance(1, 2000) {
            let n = i.samples.len();
            let k = rng.below(n);
            i.samples[k] = v;
        }
    }
    pub fn inconclusive(&self, why: Value) {
        let mut i = self.inner.lock().unwrap();
        i.inconclusive += 1;
        if i.inconclusive_samples.len() < 5 {
            i.inconclusive_samples.push(why);
        }
    }
    pub fn violations(&self) -> u64 {
        self.inner.lock().unwrap().violations
    }

    /// Report a violation with signature `sig`. If `sig` is listed as a finding for this
    /// property, it is printed as KNOWN-FINDING (once) and not counted as a violation.
    /// Otherwise a witness file is written and the VIOLATION line printed (first 20 per run
    /// are written; all are counted; one per distinct sig is printed beyond the first 20).
    pub fn violation(&self, sig: &str, witness: Value) {
        if let Some(f) = self.findings.iter().find(|f| f.property == self.id && f.sig == sig) {
            let mut i = self.inner.lock().unwrap();
            let e = i.known_seen.entry(sig.to_string()).or_insert(0);
            *e += 1;
            if *e == 1 {
                println!("KNOWN-FINDING: property={} sig={} {}", self.id, sig, f.what);
            }
            return;
        }
        let new_sig;
        {
            let mut i = self.inner.lock().unwrap();
            i.violations += 1;
            new_sig = i.violation_sigs.insert(sig.to_string());
        }
        let n = self.viol_n.fetch_add(1, Ordering::SeqCst);
        if n >= 20 && !new_sig {
            return;
        }
        let dir = verif_dir().join("replays").join(&self.id);
        let _ = std::fs::create_dir_all(&dir);
        let path = dir.join(format!("{}-{}-{}.json", self.tier.name(), self.seed, n));
        let doc = json!({"property": self.id, "sig": sig, "tier": self.tier.name(), "seed": self.seed, "witness": witness});
        let _ = std::fs::write(&path, serde_json::to_string_pretty(&doc).unwrap());
        let out = std::io::stdout();
        let mut o = out.lock();
        let _ = writeln!(o, "VIOLATION property={} replay={}", self.id, path.display());
        let _ = writeln!(o, "  sig={} {}", sig, truncate(&witness.to_string(), 700));
    }

    /// Writes the evidence file and returns the process exit code (0 held, 1 violated,
    /// 2 inconclusive).
    pub fn finish(&self, min_cases: u64) -> i32 {
        let i = self.inner.lock().unwrap();
        let wall = self.start.elapsed().as_secs_f64();
        let mut cov = Map::new();
        cov.insert("evaluations".into(), json!(i.evaluations));
        cov.insert("distinct_nontrivial".into(), json!(i.distinct.len()));
        cov.insert("rule".into(), json!(i.rule));
        cov.insert("samples".into(), Value::Array(i.samples.clone()));
        if let Some(e) = i.exhaustive {
            cov.insert("exhaustive".into(), json!(e));
        }
        cov.insert("inconclusive_cases".into(), json!(i.inconclusive));
        if !i.inconclusive_samples.is_empty() {
            cov.insert("inconclusive_samples".into(), Value::Array(i.inconclusive_samples.clone()));
        }
        let ks: Map<String, Value> = i.known_seen.iter().map(|(k, v)| (k.clone(), json!(v))).collect();
        cov.insert("known_findings_seen".into(), Value::Object(ks));
        for (k, v) in &i.counters {
            cov.insert(k.clone(), json!(v));
        }
        for (k, v) in &i.sets {
            cov.insert(k.clone(), json!(v.len()));
        }
        for (k, v) in &i.extra {
            cov.insert(k.clone(), v.clone());
        }
        let doc = json!({
            "property_id": self.id,
            "tier": self.tier.name(),
            "seed": self.seed,
            "level": self.level,
            "coverage": Value::Object(cov),
            "assumptions": i.assumptions,
            "wall_s": (wall * 1000.0).round() / 1000.0,
            "violations": i.violations,
        });
        if !self.replay_mode && std::env::var("VH_NO_EVIDENCE").is_err() {
            let dir = verif_dir().join("evidence");
            let _ = std::fs::create_dir_all(&dir);
            let path = dir.join(format!("{}.json", self.id));
            std::fs::write(&path, serde_json::to_string_pretty(&doc).unwrap() + "\n").expect("write evidence");
        }
        let counters: Vec<String> = i.counters.iter().map(|(k, v)| format!("{}={}", k, v)).collect();
        let sets: Vec<String> = i.sets.iter().map(|(k, v)| format!("{}={}", k, v.len())).collect();
        println!(
            "[{}] tier={} seed={} evaluations={} distinct_nontrivial={} violations={} inconclusive={} known_findings={} wall={:.1}s {} {}",
            self.id,
            self.tier.name(),
            self.seed,
            i.evaluations,
            i.distinct.len(),
            i.violations,
            i.inconclusive,
            i.known_seen.len(),
            wall,
            counters.join(" "),
            sets.join(" ")
        );
        if i.violations > 0 {
            return 1;
        }
        if self.replay_mode {
            println!("REPLAY property={} result=no-violation", self.id);
            return 0;
        }
        if i.evaluations < min_cases || i.distinct.len() < 2 {
            println!(
                "INCONCLUSIVE property={} reason=observed too little (evaluations={} < {} or distinct={})",
                self.id,
                i.evaluations,
                min_cases,
                i.distinct.len()
            );
            return 2;
        }
        if i.inconclusive * 100 > i.evaluations {
            println!("INCONCLUSIVE property={} reason=more than 1% of the cases were individually inconclusive ({})", self.id, i.inconclusive);
            return 2;
        }
        0
    }
}

pub fn truncate(s: &str, n: usize) -> String {
    if s.len() <= n {
        s.to_string()
    } else {
        let mut e = n;
        while !s.is_char_boundary(e) {
            e -= 1;
        }
        format!("{}…", &s[..e])
    }
}

/// Run `f(worker_index)` on `n` threads and wait.
pub fn par<F: Fn(usize) + Sync>(n: usize, f: F) {
    std::thread::scope(|s| {
        for w in 0..n {
            let f = &f;
            s.spawn(move || f(w));
        }
    });
}

pub fn workers() -> usize {
    std::env::var("VERIF_WORKERS").ok().and_then(|s| s.parse().ok()).unwrap_or_else(|| {
        std::thread::available_parallelism().map(|n| n.get()).unwrap_or(4).min(16)
    })
}

/// Read a replay file, return its `witness` member.
pub fn load_witness(path: &str) -> Value {
    let s = std::fs::read_to_string(path).expect("read replay file");
    let v: Value = serde_json::from_str(&s).expect("parse replay file");
    v.get("witness").cloned().unwrap_or(Value::Null)
}
