//! C05: `continues` only answers `more` (server half, scripted method implementations);
//! a `more` iteration ends at the final reply (client half, scripted fake server).
use crate::core::*;
use crate::drive::*;
use crate::fake::*;
use crate::model::*;
use crate::svc::*;
use serde_json::{json, Value};
use varlink::MethodCall;

const OPS: &[&str] = &["c1", "c0", "r", "e"];
const OPS_EXT: &[&str] = &["c1", "c0", "r", "e", "inv", "mnf", "mni"];

fn nth_script(ops: &[&'static str], len: usize, mut idx: usize) -> Vec<&'static str> {
    (0..len)
        .map(|_| {
            let o = ops[idx % ops.len()];
            idx /= ops.len();
            o
        })
        .collect()
}

fn server_case(ctx: &Ctx, script: &[&str], flags: Flags, spelling: usize) {
    server_case_x(ctx, script, flags, spelling, false)
}

/// `upgraded`: the script is run by the upgraded handler on the call object it is given (which
/// answers no request at all, hence none that carried `more`), after an Upgrade call.
fn server_case_x(ctx: &Ctx, script: &[&str], flags: Flags, spelling: usize, upgraded: bool) {
    let log = new_log();
    let svc = standard_service(SvcCfg { log: Some(log.clone()), up: if upgraded { crate::svc::UpMode::Script } else { crate::svc::UpMode::Drain }, ..Default::default() });
    let mut req = json!({"method": "org.verif.t.Script", "parameters": {"ops": script, "token": "T"}});
    if upgraded {
        req = json!({"method": "org.verif.t.Upgrade", "parameters": {"token": "U"}, "upgrade": true});
    }
    if flags.more {
        req["more"] = json!(true);
    }
    if flags.oneway {
        req["oneway"] = json!(true);
    }
    // a flag that is not set may be left out, written `false`, or written `null`
    if spelling > 0 {
        let v = if spelling == 1 { json!(false) } else { Value::Null };
        for k in ["more", "oneway", "upgrade"] {
            if req.get(k).is_none() {
                req[k] = v.clone();
            }
        }
    }
    let mut bytes = serde_json::to_vec(&req).unwrap();
    bytes.push(0);
    if upgraded {
        bytes.extend_from_slice(script.join(" ").as_bytes());
        bytes.push(b'\n');
    }
    let run = run_whole(&svc, &bytes, Some(log.clone()));
    let evs = log.lock().unwrap().clone();
    let has_reply_op = script.iter().any(|o| !o.starts_with('c'));
    ctx.case(if has_reply_op { Some(hash_of(&(script, flags, spelling, upgraded))) } else { None });
    if upgraded {
        ctx.count("scripts_run_by_the_upgraded_handler", 1);
    }
    let wit = |msg: String| json!({"engine": "c05-server", "upgraded_handler": upgraded, "script": script, "more": flags.more, "oneway": flags.oneway, "unset_flags_spelled": (["absent", "false", "null"][spelling]), "events": format!("{:?}", evs), "reply_bytes": show(&run.out), "message": msg});
    if let Some(p) = &run.panicked {
        ctx.violation("c05:panic", wit(format!("panic {}", p)));
        return;
    }
    // walk the log: Write events between Op markers belong to the op that follows them
    let mut cont = false;
    let mut pending_writes: Vec<u8> = Vec::new();
    let mut oi = 0;
    for e in &evs {
        match e {
            Ev::Write(b) => pending_writes.extend_from_slice(b),
            // what was written before the upgraded handler took over is the Upgrade reply
            Ev::UpEnter(_) => pending_writes.clear(),
            Ev::Op { i, op, ok, err } => {
                ctx.count("script_ops_observed", 1);
                if *i != oi || op != script[oi] {
                    ctx.violation("c05:harness-log-mismatch", wit(format!("op {} logged as {} {}", oi, i, op)));
                    return;
                }
                oi += 1;
                match op.as_str() {
                    "c1" => cont = true,
                    "c0" => cont = false,
                    _ => {
                        let gated = cont && !flags.more;
                        if gated {
                            if *ok {
                                ctx.violation(&format!("c05:gate:returned-ok:{}", op), wit(format!("op {} ({}) with continues set but no more in the request returned Ok", i, op)));
                                return;
                            }
                            if !err.contains("CallContinuesMismatch") {
                                ctx.count("gated_with_other_error_kind", 1);
                            }
                            if !pending_writes.is_empty() {
                                ctx.violation(&format!("c05:gate:wrote-bytes:{}", op), wit(format!("op {} failed but wrote {}", i, show(&pending_writes))));
                                return;
                            }
                            ctx.count("gated_attempts_observed", 1);
                        } else if flags.oneway {
                            if !pending_writes.is_empty() {
                                ctx.violation(&format!("c05:oneway-wrote-bytes:{}", op), wit(format!("op {} wrote {} for a oneway request", i, show(&pending_writes))));
                                return;
                            }
                        } else {
                            if !*ok {
                                ctx.violation(&format!("c05:legal-reply-failed:{}", op), wit(format!("op {} ({}) failed: {}", i, op, err)));
                                return;
                            }
                            // exactly one frame, continues == cont
                            let (frames, trailing) = split_frames(&pending_writes);
                            if frames.len() != 1 || !trailing.is_empty() {
                                ctx.violation(&format!("c05:frame-count:{}", op), wit(format!("op {} wrote {} frames: {}", i, frames.len(), show(&pending_writes))));
                                return;
                            }
                            let v: Value = serde_json::from_slice(frames[0]).unwrap_or(Value::Null);
                            if is_continues(&v) != cont {
                                ctx.violation(&format!("c05:continues-flag:{}", op), wit(format!("op {} frame {} but continues flag of the call is {}", i, v, cont)));
                                return;
                            }
                            let is_err = v.get("error").map(|e| e.is_string()).unwrap_or(false);
                            if is_err != (op != "r") {
                                ctx.violation(&format!("c05:reply-kind:{}", op), wit(format!("op {} frame {}", i, v)));
                                return;
                            }
                            ctx.count("reply_frames_observed", 1);
                        }
                    }
                }
                pending_writes.clear();
            }
            _ => {}
        }
    }
    if oi != script.len() {
        ctx.violation("c05:harness-ops-missing", wit(format!("{} of {} ops logged", oi, script.len())));
        return;
    }
    if upgraded && script.is_empty() {
        return;
    }
    // on the wire: continues:true only if the request carried more
    for f in canon_frames(&run.out) {
        if is_continues(&f) && !flags.more {
            ctx.violation("c05:continues-on-wire-without-more", wit(format!("frame {}", f)));
            return;
        }
    }
}

type MC = MethodCall<Value, Value, varlink::Error>;

#[derive(Clone, Copy, Debug, PartialEq, Eq, Hash)]
enum Final {
    Result,
    StdError,
    CustomError,
    CustomErrorNoParams,
}

fn client_case(ctx: &Ctx, k: usize, fin: Final, follow: usize, spelling: usize, rng: &mut Rng) {
    let val = |i: usize, rng: &mut Rng| -> Value {
        match rng.below(4) {
            0 => json!({"i": i, "s": "ü\"\\\n"}),
            1 => json!({"i": i, "a": [1, 2.5, null, {"x": []}]}),
            2 => json!({ "i": i }),
            _ => json!({"i": i, "big": "x".repeat(rng.below(9000))}),
        }
    };
    let mut script: Vec<Value> = Vec::new();
    // a reply of a method without out-parameters has no `parameters` member at all (one frame
    // in five here): it is a reply like any other, continuing or final as its flag says
    for i in 0..k {
        let p = val(i, rng);
        script.push(if rng.chance(1, 5) { json!({"continues": true}) } else { json!({"continues": true, "parameters": p}) });
    }
    script.push(match fin {
        Final::Result => {
            let p = val(k, rng);
            if rng.chance(1, 5) {
                json!({})
            } else {
                json!({ "parameters": p })
            }
        }
        Final::StdError => json!({"error": "org.varlink.service.InvalidParameter", "parameters": {"parameter": "pp"}}),
        Final::CustomError => json!({"error": "com.example.Boom", "parameters": {"why": "x", "i": k}}),
        Final::CustomErrorNoParams => json!({"error": "com.example.Boom"}),
    });
    // a continues reply may itself be an error (that is what the library's own server writes when
    // a method replies an error while continues is set): it is one more item, not the end
    let hiccup_at = if k >= 2 && spelling == 1 && follow % 2 == 1 { Some(1usize) } else { None };
    if let Some(h) = hiccup_at {
        script[h] = json!({"continues": true, "error": "com.example.Hiccup", "parameters": {"i": h}});
    }
    // a peer may spell "this is the final reply" as: member absent, `false`, or `null`
    match spelling {
        1 => script[k]["continues"] = json!(false),
        2 => script[k]["continues"] = Value::Null,
        _ => {}
    }
    let (conn, srv_end) = pair_connection();
    let sc = script.clone();
    let mut fs = spawn_fake(
        srv_end,
        move |req| {
            if req.get("method").and_then(|m| m.as_str()) == Some("x.y.More") {
                sc.clone()
            } else {
                vec![json!({"parameters": {"echo": req.get("parameters").cloned().unwrap_or(Value::Null)}})]
            }
        },
        0,
    );
    let wit = |msg: String| json!({"engine": "c05-client", "k": k, "final": format!("{:?}", fin), "follow_up_calls": follow, "final_spelling": spelling, "server_script": script, "message": msg});
    ctx.case(if k >= 1 || fin != Final::Result { Some(hash_of(&(k, fin, follow, spelling))) } else { None });
    let mut mc = MC::new(conn.clone(), "x.y.More", json!({}));
    let mut items: Vec<Result<Value, String>> = Vec::new();
    match mc.more() {
        Err(e) => {
            ctx.violation("c05:client:more-failed", wit(format!("more() failed {:?}", e.kind())));
            return;
        }
        Ok(it) => {
            for x in it {
                items.push(x.map_err(|e| format!("{:?}", e.kind())));
                if items.len() > k + 5 {
                    break;
                }
            }
        }
    }
    ctx.count("iterator_items_observed", items.len() as u64);
    if items.len() != k + 1 {
        ctx.violation("c05:client:item-count", wit(format!("iterator yielded {} items, expected {} continues + 1 final; items={:?}", items.len(), k, items)));
        return;
    }
    for (i, it) in items.iter().enumerate() {
        let want = &script[i];
        let is_err = want.get("error").is_some();
        match it {
            Ok(v) => {
                // absent parameters reach a caller that asked for a JSON value as the empty object
                if is_err || *v != want.get("parameters").cloned().unwrap_or_else(|| json!({})) {
                    ctx.violation("c05:client:item-mismatch", wit(format!("item {} is Ok({}) but the server sent {}", i, v, want)));
                    return;
                }
            }
            Err(e) => {
                if !is_err {
                    ctx.violation("c05:client:item-mismatch", wit(format!("item {} is Err({}) but the server sent {}", i, e, want)));
                    return;
                }
                let name_ok = if Some(i) == hiccup_at {
                    e.contains("VarlinkErrorReply") && e.contains("com.example.Hiccup")
                } else {
                    match fin {
                        Final::StdError => e.contains("InvalidParameter(\"pp\")"),
                        _ => e.contains("VarlinkErrorReply") && e.contains("com.example.Boom"),
                    }
                };
                if !name_ok {
                    ctx.violation("c05:client:error-mismatch", wit(format!("item {} is Err({}) for {}", i, e, want)));
                    return;
                }
            }
        }
    }
    // the iterator ended; the connection must be free for further calls
    for j in 0..follow {
        let p = json!({ "j": j });
        match MC::new(conn.clone(), "x.y.Echo", p.clone()).call() {
            Ok(v) if v.get("echo") == Some(&p) => {}
            Ok(v) => {
                ctx.violation("c05:client:follow-up-wrong-reply", wit(format!("follow-up call {} got {}", j, v)));
                return;
            }
            Err(e) => {
                ctx.violation("c05:client:connection-not-free", wit(format!("follow-up call {} failed: {:?}", j, e.kind())));
                return;
            }
        }
    }
    drop(mc);
    drop(conn);
    fs.join();
    let seen = fs.requests().len();
    if seen != 1 + follow {
        ctx.violation("c05:client:request-count", wit(format!("fake server saw {} requests, expected {}", seen, 1 + follow)));
    }
}

pub fn main(ctx: &Ctx) -> i32 {
    ctx.set_rule("server: every script over {set_continues(true), set_continues(false), reply, reply_error} up to length 5 (thorough: also the three library error replies, up to length 5) x flags {-, more, oneway, more+oneway} x unset flags spelled {absent, false, null}; client: k continues replies then a final result / standard error / custom error (with and without parameters) whose `continues` member is absent / false / null, some streams with an error reply that carries continues:true in the middle, then 0-3 further calls; distinct = (script, flags) / (k, final kind, follow-ups); non-trivial = script has >=1 reply op / k>=1 or error final");
    ctx.assume("a gated attempt (continues set, request without more) must return an error and write nothing even for a oneway request");
    ctx.set_exhaustive(true);
    let ops: &[&'static str] = ctx.tier.pick(OPS, OPS_EXT);
    let maxlen = ctx.tier.pick(5, 6);
    let nw = workers();
    for len in 0..=maxlen {
        let total = ops.len().pow(len as u32);
        par(nw, |w| {
            let mut idx = w;
            while idx < total {
                let script = nth_script(ops, len, idx);
                for &f in ALL_FLAGS {
                    for spelling in 0..3 {
                        server_case(ctx, &script, f, spelling);
                    }
                }
                if len >= 1 {
                    server_case_x(ctx, &script, Flags { more: false, oneway: false }, 0, true);
                }
                if (idx % 301 == 0 && len >= 3) || (ctx.want_sample() && len >= 2) {
                    ctx.sample(json!({"script": script, "note": "run with flags -, more, oneway, more+oneway"}));
                }
                idx += nw;
            }
        });
    }
    let kmax = ctx.tier.pick(12, 64);
    par(4, |w| {
        let mut rng = Rng::lane(ctx.seed, 500 + w as u64);
        for k in 0..=kmax {
            for (fi, fin) in [Final::Result, Final::StdError, Final::CustomError, Final::CustomErrorNoParams].iter().enumerate() {
                if fi % 4 != w {
                    continue;
                }
                for follow in 0..=3 {
                    for spelling in 0..3 {
                        client_case(ctx, k, *fin, follow, spelling, &mut rng);
                    }
                }
            }
        }
    });
    ctx.sample(json!({"client": "k continues + final + follow-up calls against a scripted fake server over a socketpair", "k_max": kmax}));
    ctx.finish(ctx.tier.pick(5_000, 50_000))
}

pub fn replay(ctx: &Ctx, w: &Value) {
    if w.get("engine").and_then(|v| v.as_str()) == Some("c05-server") {
        let script: Vec<String> = w.get("script").and_then(|v| v.as_array()).map(|a| a.iter().filter_map(|x| x.as_str().map(String::from)).collect()).unwrap_or_default();
        let s2: Vec<&str> = script.iter().map(|s| s.as_str()).collect();
        let f = Flags { more: w.get("more").and_then(|v| v.as_bool()).unwrap_or(false), oneway: w.get("oneway").and_then(|v| v.as_bool()).unwrap_or(false) };
        server_case_x(ctx, &s2, f, match w.get("unset_flags_spelled").and_then(|v| v.as_str()) { Some("false") => 1, Some("null") => 2, _ => 0 }, w.get("upgraded_handler").and_then(|v| v.as_bool()).unwrap_or(false));
    } else {
        let k = w.get("k").and_then(|v| v.as_u64()).unwrap_or(0) as usize;
        let follow = w.get("follow_up_calls").and_then(|v| v.as_u64()).unwrap_or(0) as usize;
        let fin = match w.get("final").and_then(|v| v.as_str()) {
            Some("StdError") => Final::StdError,
            Some("CustomError") => Final::CustomError,
            Some("CustomErrorNoParams") => Final::CustomErrorNoParams,
            _ => Final::Result,
        };
        client_case(ctx, k, fin, follow, w.get("final_spelling").and_then(|v| v.as_u64()).unwrap_or(0) as usize, &mut Rng::new(ctx.seed));
    }
}
