//! C15: the listen loop stops when and only when it should, and drains cleanly.
use crate::core::*;
use crate::model::*;
use crate::sock::*;
use crate::svc::*;
use serde_json::{json, Value};
use std::sync::atomic::Ordering;
use std::time::{Duration, Instant};

#[derive(Clone, Copy, Debug, PartialEq, Eq, Hash)]
pub enum FlagPlan {
    NoFlag,
    /// set before listen() is even called
    Before,
    /// set while the history's connections are active
    During,
    /// present but never set
    Never,
}

#[derive(Clone, Copy, Debug, PartialEq, Eq, Hash)]
pub enum Hist {
    NoConn,
    LateArrival,
    LongLived,
    CloseAtDeadline,
    StreamInFlight,
    QueuedAtStop,
    Churn,
    /// a connection whose handler panics (fault in interface code), then an ordinary one
    HandlerPanic,
    /// the stop flag is set while a long streaming reply is in flight; one further client arrives
    /// while it is still in flight, well after any reading of "shortly"
    LateClientsDuringStream,
    /// no connection at all, but the thread inside listen() receives handled signals (SIGUSR1, no-op
    /// handler, no SA_RESTART) while it waits: an interrupted wait is neither a connection nor an
    /// elapsed wait - the idle period and the stop flag must be honoured exactly as without signals
    SignalsWhileWaiting,
}

extern "C" fn noop_handler(_: libc::c_int) {}

fn signal_listen_thread(server: &Server) -> bool {
    static INSTALL: std::sync::Once = std::sync::Once::new();
    INSTALL.call_once(|| unsafe {
        let mut sa: libc::sigaction = std::mem::zeroed();
        sa.sa_sigaction = noop_handler as extern "C" fn(libc::c_int) as usize;
        sa.sa_flags = 0; // no SA_RESTART: the interrupted call fails with EINTR
        libc::sigemptyset(&mut sa.sa_mask);
        libc::sigaction(libc::SIGUSR1, &sa, std::ptr::null_mut());
    });
    let t = server.tid.load(Ordering::SeqCst);
    if t == 0 || server.handle.as_ref().map(|h| h.is_finished()).unwrap_or(true) {
        return false;
    }
    unsafe { libc::pthread_kill(t as libc::pthread_t, libc::SIGUSR1) == 0 }
}

#[derive(Clone, Copy, Debug, PartialEq, Eq, Hash)]
pub struct Scn {
    pub idle: u64,
    pub flag: FlagPlan,
    pub pool: (usize, usize),
    pub hist: Hist,
    pub jitter: u64,
}

const SLACK: Duration = Duration::from_millis(3000);
const QUANTUM: Duration = Duration::from_millis(100);

#[derive(Debug, Default)]
struct Obs {
    /// client-side instants (ms since scenario start) at which connect() returned
    connects: Vec<u128>,
    /// client-side close instants of connections that were certainly accepted (got a reply)
    closes: Vec<u128>,
    flag_set_at: Option<u128>,
    listen_called_at: u128,
    returned_at: Option<u128>,
    result: Option<Result<(), String>>,
    truncated: Vec<String>,
    answered_after_late_bound: usize,
    path_exists_after: bool,
    notes: Vec<String>,
    churn_answered: usize,
}

fn echo(token: &str) -> Vec<u8> {
    Req::new(Kind::Echo, Flags { more: false, oneway: false }, token).to_bytes()
}

fn one_echo(address: &str, token: &str, t0: Instant, obs: &mut Obs, must: bool) -> bool {
    match RawConn::connect(address) {
        Ok(mut c) => {
            obs.connects.push(t0.elapsed().as_millis());
            let _ = c.write_all(&echo(token));
            match c.read_frame(Duration::from_secs(10)) {
                ReadEv::Frame(f) if String::from_utf8_lossy(&f).contains(token) => {
                    drop(c);
                    obs.closes.push(t0.elapsed().as_millis());
                    true
                }
                other => {
                    if must {
                        obs.truncated.push(format!("connection {} got {:?} instead of its reply", token, other));
                    }
                    false
                }
            }
        }
        Err(e) => {
            if must {
                obs.notes.push(format!("connect {} failed: {}", token, e));
            }
            false
        }
    }
}

fn sleep_until(t0: Instant, ms: u64) {
    let target = t0 + Duration::from_millis(ms);
    let now = Instant::now();
    if target > now {
        std::thread::sleep(target - now);
    }
}

/// Runs one scenario; returns the observations.
fn run_scn(s: &Scn) -> Result<Obs, String> {
    let mut obs = Obs::default();
    let t_ms = s.idle * 1000;
    let svc = standard_service(SvcCfg { stream_delay_ms: 100, ..Default::default() });
    let with_flag = s.flag != FlagPlan::NoFlag;
    let dir = run_dir();
    let address = format!("unix:{}/s", dir.display());
    let path = format!("{}/s", dir.display());
    let t0 = Instant::now();
    let mut server = Server::start_at(svc, &address, Some(dir.clone()), ServerCfg { initial: s.pool.0, max: s.pool.1, idle_timeout: s.idle, with_stop_flag: with_flag })?;
    obs.listen_called_at = t0.elapsed().as_millis();
    if s.flag == FlagPlan::Before {
        server.stop.store(true, Ordering::SeqCst);
        obs.flag_set_at = Some(0);
    }
    // wait until the socket exists (no probe connection: it would reset the idle countdown,
    // which is fine, but it would also be refused after an early return)
    let tw = Instant::now();
    while !std::path::Path::new(&path).exists() {
        if tw.elapsed() > Duration::from_secs(10) {
            return Err("socket path never appeared".into());
        }
        if server.handle.as_ref().map(|h| h.is_finished()).unwrap_or(true) {
            break;
        }
        std::thread::sleep(Duration::from_millis(1));
    }
    let set_flag = |server: &Server, obs: &mut Obs| {
        obs.flag_set_at = Some(t0.elapsed().as_millis());
        server.stop.store(true, Ordering::SeqCst);
    };
    match s.hist {
        Hist::NoConn => {
            if s.flag == FlagPlan::During {
                sleep_until(t0, 300 + s.jitter);
                set_flag(&server, &mut obs);
            }
        }
        Hist::SignalsWhileWaiting => {
            let mut sent = 0;
            for (k, at) in [150u64, 350, 550, 750].iter().enumerate() {
                if k == 2 && s.flag == FlagPlan::During {
                    sleep_until(t0, 450 + s.jitter % 90);
                    set_flag(&server, &mut obs);
                }
                sleep_until(t0, *at);
                if signal_listen_thread(&server) {
                    sent += 1;
                }
            }
            obs.notes.push(format!("{} signals delivered to the listen thread", sent));
        }
        Hist::LateArrival => {
            // a connection arriving shortly before the first deadline
            sleep_until(t0, t_ms.saturating_sub(10 + s.jitter * 7 % 140));
            one_echo(&address, "late", t0, &mut obs, s.flag != FlagPlan::Before);
        }
        Hist::LongLived => {
            sleep_until(t0, 100);
            if let Ok(mut c) = RawConn::connect(&address) {
                obs.connects.push(t0.elapsed().as_millis());
                let _ = c.write_all(&echo("long"));
                if !matches!(c.read_frame(Duration::from_secs(10)), ReadEv::Frame(_)) {
                    obs.truncated.push("long-lived connection did not get its first reply".into());
                }
                if s.flag == FlagPlan::During {
                    sleep_until(t0, 400 + s.jitter);
                    set_flag(&server, &mut obs);
                }
                // while this connection is being served the idle countdown must not end the
                // server: a further short connection after the first deadline is still served
                // (only when the pool has room for a second connection)
                if s.idle > 0 && s.flag != FlagPlan::During && s.pool.1 > 1 {
                    sleep_until(t0, 100 + t_ms * 15 / 10 + s.jitter);
                    one_echo(&address, "while-long-lived", t0, &mut obs, true);
                }
                // stay open across 2-3 deadlines (counted from the last accepted connection)
                let base_ms = obs.connects.iter().copied().max().unwrap_or(100) as u64;
                sleep_until(t0, base_ms.max(100) + t_ms.max(1000) * 23 / 10 - if s.idle > 0 && s.flag != FlagPlan::During && s.pool.1 > 1 { t_ms * 15 / 10 } else { 0 } + s.jitter);
                // still served? a second request must be answered
                let _ = c.write_all(&echo("long2"));
                if !matches!(c.read_frame(Duration::from_secs(10)), ReadEv::Frame(_)) {
                    obs.truncated.push("long-lived connection was not served after 2.3 deadlines (no reply to its second request)".into());
                }
                drop(c);
                obs.closes.push(t0.elapsed().as_millis());
            }
        }
        Hist::CloseAtDeadline => {
            sleep_until(t0, 50);
            if let Ok(mut c) = RawConn::connect(&address) {
                let a = t0.elapsed().as_millis() as u64;
                obs.connects.push(a as u128);
                let _ = c.write_all(&echo("cad"));
                if !matches!(c.read_frame(Duration::from_secs(10)), ReadEv::Frame(_)) {
                    obs.truncated.push("no reply before the deadline".into());
                }
                // close within +-20 ms of the deadline that started at (about) the accept
                sleep_until(t0, (a + t_ms + s.jitter % 41).saturating_sub(20));
                drop(c);
                obs.closes.push(t0.elapsed().as_millis());
            }
        }
        Hist::StreamInFlight => {
            sleep_until(t0, 50);
            if let Ok(mut c) = RawConn::connect(&address) {
                obs.connects.push(t0.elapsed().as_millis());
                let r = Req::new(Kind::Stream2, Flags { more: true, oneway: false }, "str");
                let mut v = r.to_value();
                v["parameters"]["n"] = json!(14); // 14 x 100 ms: spans the 1 s deadline / the flag
                let mut b = serde_json::to_vec(&v).unwrap();
                b.push(0);
                let _ = c.write_all(&b);
                if s.flag == FlagPlan::During {
                    sleep_until(t0, 300 + s.jitter);
                    set_flag(&server, &mut obs);
                }
                let mut frames = 0;
                loop {
                    match c.read_frame(Duration::from_secs(10)) {
                        ReadEv::Frame(f) => {
                            frames += 1;
                            let v: Value = serde_json::from_slice(&f).unwrap_or(Value::Null);
                            if !is_continues(&v) {
                                break;
                            }
                        }
                        other => {
                            obs.truncated.push(format!("streaming reply cut after {} of 15 frames: {:?}", frames, other));
                            break;
                        }
                    }
                }
                if frames != 15 && obs.truncated.is_empty() {
                    obs.truncated.push(format!("streaming reply has {} frames, expected 15", frames));
                }
                drop(c);
                obs.closes.push(t0.elapsed().as_millis());
            }
        }
        Hist::LateClientsDuringStream => {
            sleep_until(t0, 50);
            if let Ok(mut c) = RawConn::connect(&address) {
                obs.connects.push(t0.elapsed().as_millis());
                let r = Req::new(Kind::Stream2, Flags { more: true, oneway: false }, "lstr");
                let mut v = r.to_value();
                v["parameters"]["n"] = json!(48); // 48 x 100 ms
                let mut b = serde_json::to_vec(&v).unwrap();
                b.push(0);
                let _ = c.write_all(&b);
                sleep_until(t0, 300 + s.jitter);
                set_flag(&server, &mut obs);
                let flag_at = obs.flag_set_at.unwrap();
                // ONE further client, at flag + 3.4 s (beyond quantum + slack), while the stream is
                // still running (a server that lets "just one more" in must not get its chance
                // used up by an earlier, unjudged client)
                for (k, after) in [3400u128 + (s.jitter as u128 % 7) * 50].into_iter().enumerate() {
                    sleep_until(t0, (flag_at + after) as u64);
                    let mut o2 = Obs::default();
                    let started = t0.elapsed().as_millis();
                    if let Ok(mut lc) = RawConn::connect(&address) {
                        let _ = lc.write_all(&echo(&format!("late{}", k)));
                        if let ReadEv::Frame(f) = lc.read_frame(Duration::from_millis(600)) {
                            if String::from_utf8_lossy(&f).contains(&format!("late{}", k)) {
                                obs.churn_answered += 1;
                                obs.closes.push(t0.elapsed().as_millis());
                                if started > flag_at + (QUANTUM + SLACK).as_millis() {
                                    obs.answered_after_late_bound += 1;
                                }
                            }
                        }
                    }
                    let _ = &mut o2;
                }
                let mut frames = 0;
                loop {
                    match c.read_frame(Duration::from_secs(10)) {
                        ReadEv::Frame(f) => {
                            frames += 1;
                            let v: Value = serde_json::from_slice(&f).unwrap_or(Value::Null);
                            if !is_continues(&v) {
                                break;
                            }
                        }
                        other => {
                            obs.truncated.push(format!("streaming reply cut after {} of 49 frames: {:?}", frames, other));
                            break;
                        }
                    }
                }
                if frames != 49 && obs.truncated.is_empty() {
                    obs.truncated.push(format!("streaming reply has {} frames, expected 49", frames));
                }
                drop(c);
                obs.closes.push(t0.elapsed().as_millis());
            }
        }
        Hist::QueuedAtStop => {
            sleep_until(t0, 50);
            let a = RawConn::connect(&address);
            let b = RawConn::connect(&address);
            if let (Ok(mut a), Ok(mut b)) = (a, b) {
                obs.connects.push(t0.elapsed().as_millis());
                let mut v = Req::new(Kind::Stream2, Flags { more: true, oneway: false }, "qa").to_value();
                v["parameters"]["n"] = json!(8);
                let mut bytes = serde_json::to_vec(&v).unwrap();
                bytes.push(0);
                let _ = a.write_all(&bytes);
                let _ = b.write_all(&echo("qb"));
                sleep_until(t0, 250 + s.jitter);
                set_flag(&server, &mut obs);
                let mut frames = 0;
                while let ReadEv::Frame(f) = a.read_frame(Duration::from_secs(10)) {
                    frames += 1;
                    if !is_continues(&serde_json::from_slice::<Value>(&f).unwrap_or(Value::Null)) {
                        break;
                    }
                }
                if frames != 9 {
                    obs.truncated.push(format!("first connection's stream has {} of 9 frames", frames));
                }
                drop(a);
                obs.closes.push(t0.elapsed().as_millis());
                match b.read_frame(Duration::from_secs(10)) {
                    ReadEv::Frame(f) if String::from_utf8_lossy(&f).contains("qb") => {}
                    other => obs.truncated.push(format!("queued-but-accepted connection was not served to completion: {:?}", other)),
                }
                drop(b);
                obs.closes.push(t0.elapsed().as_millis());
            }
        }
        Hist::HandlerPanic => {
            sleep_until(t0, 50);
            if let Ok(mut c) = RawConn::connect(&address) {
                obs.connects.push(t0.elapsed().as_millis());
                let _ = c.write_all(b"{\"method\":\"org.verif.t.Panic\",\"parameters\":{\"token\":\"boom\"}}\0");
                let (_out, eof) = c.read_to_eof(Duration::from_secs(10));
                if !eof {
                    obs.truncated.push("the connection whose handler panicked was not closed within 10 s".into());
                }
                drop(c);
                obs.closes.push(t0.elapsed().as_millis());
            }
            // the server is still there for everybody else
            one_echo(&address, "after-panic", t0, &mut obs, true);
            if s.flag == FlagPlan::During {
                sleep_until(t0, 400 + s.jitter);
                set_flag(&server, &mut obs);
            }
        }
        Hist::Churn => {
            sleep_until(t0, 100);
            one_echo(&address, "pre", t0, &mut obs, true);
            sleep_until(t0, 200 + s.jitter);
            set_flag(&server, &mut obs);
            let flag_at = obs.flag_set_at.unwrap();
            let mut rng = Rng::new(s.jitter + 5);
            let mut i = 0;
            while t0.elapsed().as_millis() < flag_at + 6000 {
                let mut o2 = Obs::default();
                let ok = one_echo(&address, &format!("ch{}", i), t0, &mut o2, false);
                if ok {
                    obs.churn_answered += 1;
                    // accepted connections count for the drain bound
                    obs.closes.extend(o2.closes);
                    if t0.elapsed().as_millis() > flag_at + (QUANTUM + SLACK).as_millis() {
                        obs.answered_after_late_bound += 1;
                    }
                } else if server.handle.as_ref().map(|h| h.is_finished()).unwrap_or(true) {
                    break;
                }
                i += 1;
                std::thread::sleep(Duration::from_millis(20 + rng.below(41) as u64));
            }
        }
    }
    // wait for listen() to return; generous watchdog
    let h = server.handle.take().unwrap();
    let wd = Instant::now();
    let limit = Duration::from_millis(s.idle * 1000 * 3 + 15_000);
    while !h.is_finished() {
        if wd.elapsed() > limit {
            // make it return if we can, then report lateness
            server.stop.store(true, Ordering::SeqCst);
            obs.notes.push("watchdog: listen() had not returned; stop flag forced".into());
            let t = Instant::now();
            while !h.is_finished() && t.elapsed() < Duration::from_secs(10) {
                std::thread::sleep(Duration::from_millis(20));
            }
            if !h.is_finished() {
                // an acceptor blocked in accept() sees the flag only after a further connection: release
                // the thread (it is reported as late either way)
                if let Ok(c) = RawConn::connect(&address) {
                    obs.notes.push("listen() returned only after a further connection arrived".into());
                    drop(c);
                }
                let t = Instant::now();
                while !h.is_finished() && t.elapsed() < Duration::from_secs(3) {
                    std::thread::sleep(Duration::from_millis(20));
                }
            }
            break;
        }
        std::thread::sleep(Duration::from_millis(2));
    }
    if h.is_finished() {
        obs.result = Some(h.join().map_err(|_| "listen thread panicked".to_string())?);
        obs.returned_at = server.returned_at.lock().unwrap().map(|i| i.duration_since(t0).as_millis());
    } else {
        // cannot join a thread that never returns; leak it and report
        obs.notes.push("listen() never returned".into());
        std::mem::forget(h);
    }
    obs.path_exists_after = std::path::Path::new(&path).exists();
    let _ = std::fs::remove_dir_all(&dir);
    server.dir = None;
    Ok(obs)
}

/// Returns Ok(nontrivial) or Err((sig, msg, timing_based)).
fn judge(s: &Scn, o: &Obs) -> Result<bool, (String, String, bool)> {
    let t_ms = (s.idle * 1000) as u128;
    let ret = match o.returned_at {
        Some(r) => r,
        None => return Err(("c15:never-returned".into(), format!("listen() did not return: {:?}", o.notes), true)),
    };
    if !o.truncated.is_empty() {
        return Err(("c15:reply-truncated-or-connection-not-served".into(), format!("{:?}", o.truncated), false));
    }
    if o.path_exists_after {
        return Err(("c15:socket-path-left-behind".into(), "the filesystem socket still exists after listen() returned".into(), false));
    }
    let last_connect = o.connects.iter().copied().max();
    let last_close = o.closes.iter().copied().max();
    // never while a connection is still being served
    if let Some(c) = last_close {
        if ret + 1 < c {
            return Err(("c15:returned-while-connection-served".into(), format!("listen() returned at {} ms, a served connection was closed by its client only at {} ms", ret, c), false));
        }
    }
    let flag_set = o.flag_set_at;
    match (&o.result, flag_set) {
        (Some(Ok(())), Some(f)) => {
            if ret + 1 < f {
                return Err(("c15:returned-ok-before-flag".into(), format!("returned Ok at {} ms, flag set at {} ms", ret, f), false));
            }
            // promptness (bounded): later of flag / last drain + quantum + slack
            let base = f.max(last_close.unwrap_or(0));
            let bound = base + (QUANTUM + SLACK).as_millis();
            if ret > bound || o.answered_after_late_bound > 0 {
                return Err((
                    format!("c15:stop-flag-not-honoured-promptly:{:?}", s.hist),
                    format!("flag set at {} ms, last accepted connection drained at {:?} ms, listen() returned at {} ms (> {} ms); {} connections were still accepted and answered more than {} ms after the flag", f, last_close, ret, bound, o.answered_after_late_bound, (QUANTUM + SLACK).as_millis()),
                    true,
                ));
            }
        }
        (Some(Ok(())), None) => {
            return Err(("c15:returned-ok-without-stop-flag".into(), format!("listen() returned Ok at {} ms though no stop flag was set", ret), false));
        }
        (Some(Err(e)), f) if e == "Timeout" => {
            if s.idle == 0 {
                return Err(("c15:timeout-without-idle-timeout".into(), "Timeout returned with idle_timeout = 0".into(), false));
            }
            let since = last_connect.unwrap_or(o.listen_called_at);
            if ret < since + t_ms {
                return Err(("c15:timeout-too-early".into(), format!("Timeout at {} ms, last connect() returned at {} ms, idle_timeout {} ms", ret, since, t_ms), false));
            }
            if let Some(f) = f {
                // flag was set and honoured would have meant Ok; a timeout is only legitimate if the
                // idle deadline expired first
                if f + (QUANTUM + SLACK).as_millis() < ret && last_close.unwrap_or(0) <= f {
                    return Err(("c15:timeout-instead-of-ok".into(), format!("flag set at {} ms but listen() returned Timeout at {} ms", f, ret), true));
                }
            }
            let base = last_close.unwrap_or(0).max(since);
            let bound = base + t_ms + (QUANTUM + SLACK).as_millis();
            if ret > bound {
                return Err(("c15:timeout-late".into(), format!("Timeout at {} ms; last connect {} ms, last drain {:?} ms, idle_timeout {} ms (bound {} ms)", ret, since, last_close, t_ms, bound), true));
            }
        }
        (Some(Err(e)), _) => return Err(("c15:unexpected-error".into(), format!("listen() returned {:?}", e), false)),
        (None, _) => return Err(("c15:never-returned".into(), "no result".into(), true)),
    }
    Ok(!o.connects.is_empty() || s.idle > 0)
}

pub fn scenarios(tier: Tier, seed: u64) -> Vec<Scn> {
    let mut v = Vec::new();
    let pools = [(1usize, 1usize), (1, 4), (2, 100)];
    let njit = tier.pick(1, 30);
    let mut rng = Rng::new(seed);
    for idle in [0u64, 1, 2] {
        for flag in [FlagPlan::NoFlag, FlagPlan::Before, FlagPlan::During, FlagPlan::Never] {
            for (pi, pool) in pools.iter().enumerate() {
                for hist in [Hist::NoConn, Hist::LateArrival, Hist::LongLived, Hist::CloseAtDeadline, Hist::StreamInFlight, Hist::QueuedAtStop, Hist::Churn, Hist::HandlerPanic, Hist::LateClientsDuringStream, Hist::SignalsWhileWaiting] {
                    // combinations that can never return or make no sense
                    if hist == Hist::LateClientsDuringStream && (flag != FlagPlan::During || (tier == Tier::Quick && pi != (idle as usize % 3))) {
                        continue;
                    }
                    if idle == 0 && matches!(flag, FlagPlan::NoFlag | FlagPlan::Never) {
                        continue;
                    }
                    if matches!(hist, Hist::LateArrival | Hist::CloseAtDeadline) && (idle == 0 || flag == FlagPlan::During) {
                        continue;
                    }
                    if matches!(hist, Hist::QueuedAtStop | Hist::Churn) && flag != FlagPlan::During {
                        continue;
                    }
                    if hist == Hist::QueuedAtStop && *pool != (1, 1) {
                        continue;
                    }
                    if flag == FlagPlan::Before && !matches!(hist, Hist::NoConn | Hist::LateArrival) {
                        continue;
                    }
                    if hist == Hist::LateArrival && flag == FlagPlan::Before {
                        continue;
                    }
                    // keep quick affordable: idle=2 only with one pool; churn with one pool per idle
                    if tier == Tier::Quick && idle == 2 && pi != 1 {
                        continue;
                    }
                    if tier == Tier::Quick && hist == Hist::Churn && pi != (idle as usize % 3) {
                        continue;
                    }
                    if tier == Tier::Quick && hist == Hist::SignalsWhileWaiting && pi != (idle as usize % 3) {
                        continue;
                    }
                    if hist == Hist::LongLived && idle == 2 && tier == Tier::Quick {
                        continue;
                    }
                    for _ in 0..njit {
                        v.push(Scn { idle, flag, pool: *pool, hist, jitter: rng.below(100) as u64 });
                    }
                }
            }
        }
    }
    // a long idle timeout beside a stop flag: how soon the flag is honoured must not depend on
    // the idle period (with 1-2 s the difference drowns in the slack for a loaded machine)
    for (k, hist) in [Hist::NoConn, Hist::LongLived].into_iter().enumerate() {
        for _ in 0..tier.pick(1, 4) {
            v.push(Scn { idle: 9, flag: FlagPlan::During, pool: pools[1 + k], hist, jitter: rng.below(100) as u64 });
        }
    }
    v
}

/// `stop_listening` is documented as a global flag: several listen() calls may be given the same
/// one, and a flag that is still set stops a listen() started later.  Returns a description of
/// what did not stop, or None.
fn shared_flag_pass(tag: &str) -> Result<Option<String>, String> {
    use std::sync::atomic::AtomicBool;
    use std::sync::Arc;
    let flag = Arc::new(AtomicBool::new(false));
    let dir = run_dir();
    let mut handles = Vec::new();
    let mut paths = Vec::new();
    for k in 0..3 {
        let path = dir.join(format!("{}-{}", tag, k));
        let addr = format!("unix:{}", path.display());
        paths.push(path);
        let f = flag.clone();
        let a = addr.clone();
        handles.push((
            addr,
            std::thread::spawn(move || {
                let lc = varlink::ListenConfig { stop_listening: Some(f), idle_timeout: 0, ..Default::default() };
                varlink::listen(standard_service(SvcCfg::default()), &a, &lc).map_err(|e| format!("{:?}", e.kind()))
            }),
        ));
    }
    for (addr, _) in &handles {
        let t0 = Instant::now();
        while RawConn::connect(addr).is_err() {
            if t0.elapsed() > Duration::from_secs(10) {
                return Err(format!("listener {} not ready", addr));
            }
            std::thread::sleep(Duration::from_millis(5));
        }
    }
    flag.store(true, Ordering::SeqCst);
    let t_set = Instant::now();
    let mut problems = Vec::new();
    for (k, (addr, h)) in handles.into_iter().enumerate() {
        while !h.is_finished() && t_set.elapsed() < Duration::from_secs(10) {
            std::thread::sleep(Duration::from_millis(20));
        }
        if !h.is_finished() {
            problems.push(format!("listener {} of 3 sharing one stop flag is still accepting 10 s after the flag was set ({})", k + 1, addr));
            continue; // the thread is left behind; the process ends with the check
        }
        match h.join() {
            Ok(Ok(())) => {}
            Ok(Err(e)) => problems.push(format!("listener {} returned Err({})", k + 1, e)),
            Err(_) => problems.push(format!("listener {} panicked", k + 1)),
        }
        if paths[k].exists() {
            problems.push(format!("listener {} left its socket file behind", k + 1));
        }
    }
    // the flag is still set: a listen() started now has been told to stop already
    if problems.is_empty() {
        let path = dir.join(format!("{}-late", tag));
        let addr = format!("unix:{}", path.display());
        let f = flag.clone();
        let h = std::thread::spawn(move || {
            let lc = varlink::ListenConfig { stop_listening: Some(f), idle_timeout: 0, ..Default::default() };
            varlink::listen(standard_service(SvcCfg::default()), &addr, &lc).map_err(|e| format!("{:?}", e.kind()))
        });
        let t0 = Instant::now();
        while !h.is_finished() && t0.elapsed() < Duration::from_secs(10) {
            std::thread::sleep(Duration::from_millis(20));
        }
        if !h.is_finished() {
            problems.push("a listen() started while the flag is still set is still accepting 10 s later".into());
        } else if let Ok(Err(e)) = h.join() {
            problems.push(format!("a listen() started while the flag is still set returned Err({})", e));
        }
    }
    let _ = std::fs::remove_dir_all(&dir);
    Ok(if problems.is_empty() { None } else { Some(problems.join("; ")) })
}

fn shared_flag(ctx: &Ctx) {
    let mut seen = Vec::new();
    for attempt in 0..3 {
        match shared_flag_pass(&format!("sf{}", attempt)) {
            Err(e) => return ctx.inconclusive(json!({"shared_flag": e})),
            Ok(None) => {
                if attempt == 0 {
                    ctx.case(Some(hash_of(&"shared-stop-flag")));
                    ctx.count("shared_flag_listeners_stopped", 4);
                } else {
                    ctx.inconclusive(json!({"shared_flag": "a listener was late once but not when repeated", "first": seen}));
                }
                return;
            }
            Ok(Some(p)) => seen.push(p),
        }
    }
    ctx.violation("c15:stop-flag-not-honoured-by-every-listen-call", json!({"engine": "c15-shared-flag", "message": seen}));
}

pub fn main(ctx: &Ctx) -> i32 {
    shared_flag(ctx);
    ctx.set_rule("scenario matrix {idle_timeout 0,1,2 s} x {no flag, set before listen, set while connections are active, present but never set} x pools {(1,1),(1,4),(2,100)} x histories {none, a connection whose handler panics followed by an ordinary one, arrival shortly before the deadline, long-lived across 2-3 deadlines, close within +-20 ms of the deadline, streaming reply in flight at flag/deadline, queued-but-accepted connection at stop, churn: a new connection every 20-60 ms for 6 s after the flag} x jitter seeds; plus one stop flag shared by three listen() calls and reused by a fourth started while it is still set; distinct = scenario incl. jitter; non-trivial = >=1 connection or an idle deadline that expired");
    ctx.assume("all timestamps come from one Instant clock in one process; connect() returning precedes the server's accept, so 'no Timeout earlier than T after the last connect' is a safe bound");
    ctx.assume("promptness is bounded: later of {flag set, last accepted connection drained} (+T for idle) + 100 ms quantum + 3 s slack; a late scenario is re-run alone 3 times and only a consistent lateness is a violation");
    let scns = scenarios(ctx.tier, ctx.seed);
    let nw = 32;
    let retry: std::sync::Mutex<Vec<(Scn, String, String)>> = std::sync::Mutex::new(Vec::new());
    par(nw, |w| {
        let mut i = w;
        while i < scns.len() {
            let s = scns[i];
            i += nw;
            match run_scn(&s) {
                Err(e) => ctx.inconclusive(json!({"scenario": format!("{:?}", s), "harness": e})),
                Ok(o) => {
                    ctx.count("connections_observed", (o.connects.len() + o.churn_answered) as u64);
                    match judge(&s, &o) {
                        Ok(nt) => {
                            ctx.case(if nt { Some(hash_of(&s)) } else { None });
                            {
                                ctx.sample(json!({"scenario": format!("{:?}", s), "result": format!("{:?}", o.result), "returned_at_ms": o.returned_at, "flag_set_at_ms": o.flag_set_at, "connects_ms": o.connects, "closes_ms": o.closes.iter().take(6).collect::<Vec<_>>()}));
                            }
                        }
                        Err((sig, msg, timing)) => {
                            if timing {
                                retry.lock().unwrap().push((s, sig, msg));
                            } else {
                                ctx.case(Some(hash_of(&s)));
                                ctx.violation(&sig, json!({"engine": "c15", "scenario": format!("{:?}", s), "scn": scn_json(&s), "message": msg, "observations": format!("{:?}", o)}));
                            }
                        }
                    }
                }
            }
        }
    });
    // timing-based candidates: re-run alone, three times; consistent => violation
    let mut done_sigs: std::collections::HashSet<String> = std::collections::HashSet::new();
    for (s, sig, msg) in retry.into_inner().unwrap() {
        ctx.case(Some(hash_of(&s)));
        if !done_sigs.insert(format!("{}{:?}{}{:?}", sig, s.hist, s.idle, s.pool)) {
            // an identical (sig, history, configuration) candidate is already being confirmed
            ctx.count("late_candidates_deduplicated", 1);
            continue;
        }
        let mut again = 0;
        let mut last = msg.clone();
        for _ in 0..3 {
            if let Ok(o) = run_scn(&s) {
                if let Err((sig2, m2, _)) = judge(&s, &o) {
                    if sig2 == sig {
                        again += 1;
                        last = m2;
                    }
                }
            }
        }
        if again == 3 {
            ctx.violation(&sig, json!({"engine": "c15", "scenario": format!("{:?}", s), "scn": scn_json(&s), "message": last, "first_observation": msg, "reproduced_alone": "3/3"}));
        } else {
            ctx.inconclusive(json!({"scenario": format!("{:?}", s), "late_once": msg, "reproduced_alone": again}));
        }
    }
    ctx.finish(ctx.tier.pick(40, 400))
}

fn scn_json(s: &Scn) -> Value {
    json!({"idle": s.idle, "flag": format!("{:?}", s.flag), "pool": [s.pool.0, s.pool.1], "hist": format!("{:?}", s.hist), "jitter": s.jitter})
}

pub fn replay(ctx: &Ctx, w: &Value) {
    if w.get("engine").and_then(|v| v.as_str()) == Some("c15-shared-flag") {
        return shared_flag(ctx);
    }
    let j = &w["scn"];
    let flag = match j["flag"].as_str() {
        Some("Before") => FlagPlan::Before,
        Some("During") => FlagPlan::During,
        Some("Never") => FlagPlan::Never,
        _ => FlagPlan::NoFlag,
    };
    let hist = [Hist::NoConn, Hist::LateArrival, Hist::LongLived, Hist::CloseAtDeadline, Hist::StreamInFlight, Hist::QueuedAtStop, Hist::Churn, Hist::HandlerPanic, Hist::LateClientsDuringStream, Hist::SignalsWhileWaiting].into_iter().find(|h| Some(format!("{:?}", h).as_str()) == j["hist"].as_str()).unwrap_or(Hist::NoConn);
    let s = Scn { idle: j["idle"].as_u64().unwrap_or(0), flag, pool: (j["pool"][0].as_u64().unwrap_or(1) as usize, j["pool"][1].as_u64().unwrap_or(1) as usize), hist, jitter: j["jitter"].as_u64().unwrap_or(0) };
    match run_scn(&s) {
        Ok(o) => {
            println!("observations: {:?}", o);
            if let Err((sig, msg, _)) = judge(&s, &o) {
                ctx.violation(&sig, json!({"engine": "c15", "scn": scn_json(&s), "message": msg}));
            }
        }
        Err(e) => println!("harness error {}", e),
    }
}
