//! C17: wire data types survive a JSON round trip in both directions.
use crate::core::*;
use serde::de::DeserializeOwned;
use serde::Serialize;
use serde_json::{json, Map, Value};
use std::fmt::Debug;
use varlink::{GetInterfaceDescriptionArgs, GetInterfaceDescriptionReply, Reply, Request, ServiceInfo, StringHashMap, StringHashSet};

const KEYS: &[&str] = &["", "a", "key", "ü", "日本", "with space", "q\"uote", "back\\slash", "nl\n", "tab\t", "\u{0}", "\u{1f}", "😀", "{}", "a.b", "null", "0", "very-long-key-xxxxxxxxxxxxxxxxxxxxxxxxxxxxxxxxxxxxxxxxxxxxxxxxxxxxxxxxxxxx"];
/// Error names a reply can carry: the four standard ones, the same member names under other
/// interfaces (an error is identified by its FULL name), near misses, and awkward strings.
const ERR_NAMES: &[&str] = &[
    "org.varlink.service.InvalidParameter",
    "org.varlink.service.InterfaceNotFound",
    "org.varlink.service.MethodNotFound",
    "org.varlink.service.MethodNotImplemented",
    "org.varlink.resolver.InterfaceNotFound",
    "com.example.store.InvalidParameter",
    "a.MethodNotFound",
    "x.y.MethodNotImplemented",
    "InvalidParameter",
    "org.varlink.service.invalidparameter",
    "org.varlink.service.InvalidParameterX",
    "org.varlink.serviceX.InvalidParameter",
    "org.varlink.service",
    "org.varlink.service.",
    " org.varlink.service.InvalidParameter",
    "a.b.E",
    "",
    "\u{fc}.\u{e9}.\u{dc}n\u{ef}",
    "a.b.E\"q\\",
];

const METHODS: &[&str] = &["org.varlink.service.GetInfo", "a.b.C", "", "nodot", "ü.ö.Ä", "x.y.Z\"\\\n"];

fn gen_value(rng: &mut Rng, depth: usize) -> Value {
    match rng.below(if depth == 0 { 6 } else { 9 }) {
        0 => Value::Null,
        1 => json!(rng.chance(1, 2)),
        2 => json!(*rng.pick(&[0i64, -1, 1, i64::MAX, i64::MIN, 42, 1 << 53])),
        3 => {
            if rng.chance(1, 2) {
                json!(*rng.pick(&[0.5f64, -1.25, 1e10, 1e-7, 3.0, 0.9999999999999999, 1.0000000000000002, 0.1, 0.30000000000000004, 5e-324, 1.7976931348623157e308, 2.2250738585072014e-308, 9007199254740993.0]))
            } else {
                // any finite double: its shortest decimal text denotes it and nothing else
                loop {
                    let f = f64::from_bits(rng.next());
                    if f.is_finite() {
                        break json!(f);
                    }
                }
            }
        }
        4 => json!(*rng.pick(KEYS)),
        5 => json!(u64::MAX),
        6 => Value::Array((0..rng.below(4)).map(|_| gen_value(rng, depth - 1)).collect()),
        _ => {
            let mut m = Map::new();
            for _ in 0..rng.below(4) {
                m.insert(rng.pick(KEYS).to_string(), gen_value(rng, depth - 1));
            }
            Value::Object(m)
        }
    }
}

/// All three entry points; returns Err(message) on the first deviation.
fn round_trip<T: Serialize + DeserializeOwned + PartialEq + Debug>(v: &T) -> Result<Value, String> {
    let s = serde_json::to_string(v).map_err(|e| format!("to_string: {}", e))?;
    let b = serde_json::to_vec(v).map_err(|e| format!("to_vec: {}", e))?;
    let val = serde_json::to_value(v).map_err(|e| format!("to_value: {}", e))?;
    if s.as_bytes() != &b[..] {
        return Err(format!("to_string and to_vec differ: {} / {}", s, String::from_utf8_lossy(&b)));
    }
    let pv: Value = serde_json::from_str(&s).map_err(|e| format!("output of to_string is not JSON: {} ({})", e, s))?;
    if !json_eq(&pv, &val) {
        return Err(format!("to_string {} and to_value {} disagree", s, val));
    }
    let a: T = serde_json::from_str(&s).map_err(|e| format!("from_str({}) failed: {}", s, e))?;
    if &a != v {
        return Err(format!("from_str(to_string(v)) = {:?} != {:?}", a, v));
    }
    let a: T = serde_json::from_slice(&b).map_err(|e| format!("from_slice({}) failed: {}", s, e))?;
    if &a != v {
        return Err(format!("from_slice(to_vec(v)) = {:?} != {:?}", a, v));
    }
    let a: T = serde_json::from_value(val.clone()).map_err(|e| format!("from_value({}) failed: {}", val, e))?;
    if &a != v {
        return Err(format!("from_value(to_value(v)) = {:?} != {:?}", a, v));
    }
    Ok(val)
}

/// serde_json may represent the same number as different Number variants after a text round trip
/// only if it changed the type; compare structurally with numeric equality.
fn json_eq(a: &Value, b: &Value) -> bool {
    match (a, b) {
        (Value::Number(x), Value::Number(y)) => x == y || (x.as_f64() == y.as_f64() && x.is_f64() == y.is_f64()),
        (Value::Array(x), Value::Array(y)) => x.len() == y.len() && x.iter().zip(y).all(|(p, q)| json_eq(p, q)),
        (Value::Object(x), Value::Object(y)) => x.len() == y.len() && x.iter().all(|(k, v)| y.get(k).map(|w| json_eq(v, w)).unwrap_or(false)),
        _ => a == b,
    }
}

fn drop_null_optionals(mut v: Value, optional: &[&str]) -> Value {
    if let Some(o) = v.as_object_mut() {
        for k in optional {
            if o.get(*k) == Some(&Value::Null) {
                o.remove(*k);
            }
        }
    }
    v
}

fn opt_flag(i: usize) -> Option<bool> {
    [None, Some(true), Some(false)][i % 3]
}

pub fn main(ctx: &Ctx) -> i32 {
    ctx.set_rule("Request/Reply: all {unset,true,false}^3 flag combinations x 6 method strings x parameters {absent, null, scalar, nested} (exhaustive) + random nested parameters; StringHashSet / StringHashMap<T>: all subsets of an 18-key pool up to size 3 exhaustively + random larger ones (empty, non-ASCII, quotes, backslashes, control characters); ServiceInfo and description types; 3 entry points each (str, bytes, Value) and the reverse direction from hand-built JSON objects; distinct = (type, value hash); non-trivial = >=1 optional set or >=1 collection element");
    ctx.assume("numbers are compared with serde_json's Number equality (integers exact; floats: a pool of awkward doubles and random finite bit patterns, compared exactly)");
    let fail = |ctx: &Ctx, sig: &str, ty: &str, val: String, msg: String| {
        ctx.violation(sig, json!({"engine": "c17", "type": ty, "value": val, "message": msg}));
    };
    let mut rng = Rng::new(ctx.seed);
    // ---- Request
    let params: Vec<Option<Value>> = vec![None, Some(Value::Null), Some(json!(7)), Some(json!("s")), Some(json!({"a": {"b": [1, null, {"c": "ü"}]}, "": {}})), Some(json!([]))];
    for f in 0..27 {
        for m in METHODS {
            for p in &params {
                let r = Request { more: opt_flag(f), oneway: opt_flag(f / 3), upgrade: opt_flag(f / 9), method: (*m).into(), parameters: p.clone() };
                let nontrivial = f != 0 || p.is_some();
                ctx.case(if nontrivial { Some(hash_of(&("Request", f, m, p.as_ref().map(|x| x.to_string())))) } else { None });
                // Option<Value>: Some(Null) deserialises back as None — an equal *wire* object; handled below
                let res = if p == &Some(Value::Null) { round_trip_nullparam_request(&r) } else { round_trip(&r) };
                match res {
                    Err(e) => fail(ctx, "c17:request-round-trip", "Request", format!("{:?}", r), e),
                    Ok(val) => {
                        let o = val.as_object().cloned().unwrap_or_default();
                        for (k, set) in [("more", r.more.is_some()), ("oneway", r.oneway.is_some()), ("upgrade", r.upgrade.is_some()), ("parameters", r.parameters.is_some())] {
                            if o.contains_key(k) != set {
                                fail(ctx, "c17:request-optional-member", "Request", format!("{:?}", r), format!("member {} present={} but set={} in {}", k, o.contains_key(k), set, val));
                            }
                        }
                        if o.get("method") != Some(&json!(m)) {
                            fail(ctx, "c17:request-method", "Request", format!("{:?}", r), format!("method member wrong in {}", val));
                        }
                    }
                }
            }
        }
    }
    // ---- Reply
    let mut errs: Vec<Option<&'static str>> = vec![None];
    errs.extend(ERR_NAMES.iter().map(|e| Some(*e)));
    for c in 0..3 {
        for e in &errs {
            for p in &params {
                let r = Reply { continues: opt_flag(c), error: e.map(|s| s.into()), parameters: p.clone() };
                ctx.case(if c != 0 || e.is_some() || p.is_some() { Some(hash_of(&("Reply", c, e, p.as_ref().map(|x| x.to_string())))) } else { None });
                let res = if p == &Some(Value::Null) { round_trip_nullparam_reply(&r) } else { round_trip(&r) };
                match res {
                    Err(m) => fail(ctx, "c17:reply-round-trip", "Reply", format!("{:?}", r), m),
                    Ok(val) => {
                        let o = val.as_object().cloned().unwrap_or_default();
                        for (k, set) in [("continues", r.continues.is_some()), ("error", r.error.is_some()), ("parameters", r.parameters.is_some())] {
                            if o.contains_key(k) != set {
                                fail(ctx, "c17:reply-optional-member", "Reply", format!("{:?}", r), format!("member {} present={} but set={} in {}", k, o.contains_key(k), set, val));
                            }
                        }
                    }
                }
            }
        }
    }
    // random nested parameters
    for _ in 0..ctx.tier.pick(20_000, 2_000_000) {
        let p = gen_value(&mut rng, 3);
        if p.is_null() {
            continue;
        }
        let r = Request { more: opt_flag(rng.below(3)), oneway: opt_flag(rng.below(3)), upgrade: opt_flag(rng.below(3)), method: (*rng.pick(METHODS)).into(), parameters: Some(p.clone()) };
        ctx.case(Some(hash_of(&("RequestR", p.to_string()))));
        if let Err(e) = round_trip(&r) {
            fail(ctx, "c17:request-round-trip", "Request", format!("{:?}", r), e);
        }
        let err: Option<String> = match rng.below(4) {
            0 => Some((*rng.pick(ERR_NAMES)).to_string()),
            // a random interface with a random member, often one of the four standard member names
            1 => Some(format!("{}.{}", rng.pick_str(&["org.varlink.resolver", "com.example.store", "org.varlink", "a", "org.varlink.service.x", "io.b-b.c9"]), rng.pick_str(&["InterfaceNotFound", "InvalidParameter", "MethodNotFound", "MethodNotImplemented", "Err", "NotFound", "X"]))),
            _ => None,
        };
        let r = Reply { continues: opt_flag(rng.below(3)), error: err.map(|s| s.into()), parameters: Some(p.clone()) };
        if let Err(e) = round_trip(&r) {
            fail(ctx, "c17:reply-round-trip", "Reply", format!("{:?}", r), e);
        }
    }
    // ---- reverse direction: every valid request/reply object -> value -> equivalent object
    for f in 0..64 {
        for p in [None, Some(Value::Null), Some(json!({"x": [1, {"y": null}]})), Some(json!(3))] {
            let mut o = Map::new();
            o.insert("method".into(), json!(METHODS[f % METHODS.len()]));
            for (i, k) in ["more", "oneway", "upgrade"].iter().enumerate() {
                match (f >> (2 * i)) & 3 {
                    0 => {}
                    1 => {
                        o.insert((*k).into(), json!(true));
                    }
                    2 => {
                        o.insert((*k).into(), json!(false));
                    }
                    _ => {
                        o.insert((*k).into(), Value::Null);
                    }
                }
            }
            if let Some(p) = &p {
                o.insert("parameters".into(), p.clone());
            }
            let obj = Value::Object(o);
            ctx.case(Some(hash_of(&("RequestObj", obj.to_string()))));
            let txt = obj.to_string();
            for (entry, r) in [
                ("from_str", serde_json::from_str::<Request>(&txt).map_err(|e| e.to_string())),
                ("from_slice", serde_json::from_slice::<Request>(txt.as_bytes()).map_err(|e| e.to_string())),
                ("from_value", serde_json::from_value::<Request>(obj.clone()).map_err(|e| e.to_string())),
            ] {
                match r {
                    Err(e) => fail(ctx, "c17:valid-request-object-rejected", "Request", txt.clone(), format!("{}: {}", entry, e)),
                    Ok(r) => {
                        let back = serde_json::to_value(&r).unwrap_or(Value::Null);
                        let want = drop_null_optionals(obj.clone(), &["more", "oneway", "upgrade", "parameters"]);
                        if !json_eq(&back, &want) {
                            fail(ctx, "c17:request-object-not-equivalent", "Request", txt.clone(), format!("{}: serialises back to {} (expected {})", entry, back, want));
                        }
                    }
                }
            }
        }
    }
    for f in 0..(16 + 4 * ERR_NAMES.len()) {
        let mut o = Map::new();
        let err_name: &str = if f < 16 { "a.b.Err" } else { ERR_NAMES[(f - 16) / 4] };
        let f = if f < 16 { f } else { 4 + ((f - 16) % 4) };
        match f & 3 {
            1 => {
                o.insert("continues".into(), json!(true));
            }
            2 => {
                o.insert("continues".into(), json!(false));
            }
            3 => {
                o.insert("continues".into(), Value::Null);
            }
            _ => {}
        }
        match (f >> 2) & 3 {
            1 => {
                o.insert("error".into(), json!(err_name));
            }
            2 => {
                o.insert("error".into(), Value::Null);
            }
            3 => {
                o.insert("parameters".into(), json!({"k": [1, 2]}));
            }
            _ => {}
        }
        let obj = Value::Object(o);
        ctx.case(Some(hash_of(&("ReplyObj", obj.to_string()))));
        let txt = obj.to_string();
        match serde_json::from_str::<Reply>(&txt) {
            Err(e) => fail(ctx, "c17:valid-reply-object-rejected", "Reply", txt.clone(), e.to_string()),
            Ok(r) => {
                let back = serde_json::to_value(&r).unwrap_or(Value::Null);
                let want = drop_null_optionals(obj.clone(), &["continues", "error", "parameters"]);
                if !json_eq(&back, &want) {
                    fail(ctx, "c17:reply-object-not-equivalent", "Reply", txt.clone(), format!("serialises back to {} (expected {})", back, want));
                }
            }
        }
    }
    // ---- StringHashSet: all subsets up to size 3 + random
    let mut sets: Vec<Vec<&str>> = vec![vec![]];
    for a in 0..KEYS.len() {
        sets.push(vec![KEYS[a]]);
        for b in a + 1..KEYS.len() {
            sets.push(vec![KEYS[a], KEYS[b]]);
            if ctx.tier == Tier::Thorough || (a + b) % 3 == 0 {
                for c in b + 1..KEYS.len() {
                    sets.push(vec![KEYS[a], KEYS[b], KEYS[c]]);
                }
            }
        }
    }
    for _ in 0..ctx.tier.pick(500, 20_000) {
        let n = rng.range(4, 8);
        let mut v: Vec<&str> = Vec::new();
        while v.len() < n {
            let k = *rng.pick(KEYS);
            if !v.contains(&k) {
                v.push(k);
            }
        }
        sets.push(v);
    }
    for keys in &sets {
        let mut s = StringHashSet::new();
        for k in keys {
            s.insert(k.to_string());
        }
        ctx.case(if keys.is_empty() { None } else { Some(hash_of(&("Set", keys))) });
        match round_trip(&s) {
            Err(e) => fail(ctx, &format!("c17:stringhashset-round-trip:{}", if keys.is_empty() { "empty" } else { "non-empty" }), "StringHashSet", format!("{:?}", keys), e),
            Ok(val) => {
                let want: Map<String, Value> = keys.iter().map(|k| (k.to_string(), json!({}))).collect();
                if val != Value::Object(want.clone()) {
                    fail(ctx, "c17:stringhashset-shape", "StringHashSet", format!("{:?}", keys), format!("serialised as {} (expected every element mapped to {{}})", val));
                }
            }
        }
        // the same object again after it changed (same size, other elements; cleared and
        // refilled; a clone changed): what is written is the value as it is now
        if !keys.is_empty() {
            let mut s2 = s.clone();
            let _ = round_trip(&s2);
            let first = keys[0].to_string();
            s.remove(&first);
            s.insert("replacement-element".to_string());
            s2.clear();
            for k in keys.iter().rev() {
                s2.insert(format!("{}'", k));
            }
            for (label, set, want_keys) in [
                ("element replaced", &s, keys.iter().skip(1).map(|k| k.to_string()).chain(std::iter::once("replacement-element".to_string())).collect::<Vec<_>>()),
                ("cleared and refilled", &s2, keys.iter().map(|k| format!("{}'", k)).collect::<Vec<_>>()),
            ] {
                ctx.count("values_serialised_again_after_a_change", 1);
                match round_trip(set) {
                    Err(e) => fail(ctx, "c17:stringhashset-round-trip:after-change", "StringHashSet", format!("{:?} then {}", keys, label), e),
                    Ok(val) => {
                        let want: Map<String, Value> = want_keys.iter().map(|k| (k.clone(), json!({}))).collect();
                        if val != Value::Object(want) {
                            fail(ctx, "c17:stringhashset-shape:after-change", "StringHashSet", format!("{:?} then {}", keys, label), format!("serialised as {} after the change", val));
                        }
                    }
                }
            }
            // back to the original value for what follows
            s.remove("replacement-element");
            s.insert(first);
        }
        // maps of several value types with the same keys
        let mut m: StringHashMap<i64> = StringHashMap::new();
        let mut mv: StringHashMap<Vec<Option<String>>> = StringHashMap::new();
        let mut ms: StringHashMap<StringHashSet> = StringHashMap::new();
        for (i, k) in keys.iter().enumerate() {
            m.insert(k.to_string(), i as i64 - 1);
            mv.insert(k.to_string(), vec![None, Some(k.to_string())]);
            ms.insert(k.to_string(), s.clone());
        }
        ctx.case(if keys.is_empty() { None } else { Some(hash_of(&("Map", keys))) });
        if let Err(e) = round_trip(&m) {
            fail(ctx, "c17:stringhashmap-round-trip", "StringHashMap<i64>", format!("{:?}", keys), e);
        }
        if let Err(e) = round_trip(&mv) {
            fail(ctx, "c17:stringhashmap-round-trip", "StringHashMap<Vec<Option<String>>>", format!("{:?}", keys), e);
        }
        if keys.len() <= 3 {
            if let Err(e) = round_trip(&ms) {
                fail(ctx, &format!("c17:stringhashmap-of-sets-round-trip:{}", if keys.is_empty() { "empty" } else { "non-empty" }), "StringHashMap<StringHashSet>", format!("{:?}", keys), e);
            }
        }
    }
    // ---- ServiceInfo: every member drawn from the awkward-string pool (empty strings included),
    // every member present in the serialised object (none of them is optional)
    {
        let pool = ["", "x", "ü\"\\", " ", "http://u/?a=b&c", "null", "0"];
        for (vi, v) in pool.iter().enumerate() {
            for field in 0..5usize {
                let pick = |f: usize| if f == field { v.to_string() } else { pool[(vi + f + 1) % pool.len()].to_string() };
                let si = ServiceInfo { vendor: pick(0).into(), product: pick(1).into(), version: pick(2).into(), url: pick(3).into(), interfaces: if field == 4 { vec![v.to_string().into()] } else { vec![] } };
                ctx.case(Some(hash_of(&("ServiceInfoFields", vi, field))));
                match round_trip(&si) {
                    Err(e) => fail(ctx, "c17:serviceinfo-round-trip", "ServiceInfo", format!("{:?}", si), e),
                    Ok(val) => {
                        for k in ["vendor", "product", "version", "url", "interfaces"] {
                            if val.get(k).is_none() {
                                fail(ctx, "c17:serviceinfo-member-missing", "ServiceInfo", format!("{:?}", si), format!("member {} is missing from {}", k, val));
                            }
                        }
                    }
                }
            }
        }
    }
    // ---- ServiceInfo & description types
    for n in 0..6 {
        for s in [KEYS[n], KEYS[n + 6], KEYS[n + 12]] {
            let si = ServiceInfo { vendor: s.to_string().into(), product: "p".into(), version: KEYS[n].to_string().into(), url: "http://x".into(), interfaces: (0..n).map(|i| KEYS[i].to_string().into()).collect() };
            ctx.case(if n > 0 { Some(hash_of(&("ServiceInfo", n, s))) } else { None });
            if let Err(e) = round_trip(&si) {
                fail(ctx, "c17:serviceinfo-round-trip", "ServiceInfo", format!("{:?}", si), e);
            }
            let a = GetInterfaceDescriptionArgs { interface: s.to_string().into() };
            if let Err(e) = round_trip(&a) {
                fail(ctx, "c17:description-args-round-trip", "GetInterfaceDescriptionArgs", format!("{:?}", a), e);
            }
            for d in [None, Some(s.to_string())] {
                let r = GetInterfaceDescriptionReply { description: d.clone() };
                ctx.case(Some(hash_of(&("DescReply", &d))));
                match round_trip(&r) {
                    Err(e) => fail(ctx, "c17:description-reply-round-trip", "GetInterfaceDescriptionReply", format!("{:?}", r), e),
                    Ok(v) => {
                        if v.as_object().map(|o| o.contains_key("description")).unwrap_or(false) != d.is_some() {
                            fail(ctx, "c17:description-reply-optional-member", "GetInterfaceDescriptionReply", format!("{:?}", r), format!("{}", v));
                        }
                    }
                }
            }
        }
    }
    ctx.sample(json!({"Request": {"more": "Some(true)", "oneway": "None", "upgrade": "Some(false)", "method": "x.y.Z\"\\\n", "parameters": {"a": {"b": [1, null, {"c": "ü"}]}, "": {}}}}));
    ctx.sample(json!({"StringHashSet": ["q\"uote", "\u{0}", "日本"], "expected_wire": {"q\"uote": {}, "\u{0}": {}, "日本": {}}}));
    ctx.sample(json!({"reverse": "{\"method\":\"a.b.C\",\"more\":null,\"oneway\":false,\"parameters\":null} -> Request -> {\"method\":\"a.b.C\",\"oneway\":false}"}));
    ctx.finish(ctx.tier.pick(5_000, 200_000))
}

/// `parameters: Some(Null)` is written as `"parameters":null`, which reads back as None: the
/// *objects* are equivalent (null-valued optional member), the Rust values are not — compare
/// on the wire form instead.
fn round_trip_nullparam_request(r: &Request) -> Result<Value, String> {
    let s = serde_json::to_string(r).map_err(|e| e.to_string())?;
    let a: Request = serde_json::from_str(&s).map_err(|e| format!("from_str({}) failed: {}", s, e))?;
    let mut want = r.clone();
    want.parameters = None;
    if a != want {
        return Err(format!("from_str(to_string(v)) = {:?} != {:?} (modulo null parameters)", a, want));
    }
    // the optional-member check expects the member when the option is set
    serde_json::to_value(r).map_err(|e| e.to_string())
}
fn round_trip_nullparam_reply(r: &Reply) -> Result<Value, String> {
    let s = serde_json::to_string(r).map_err(|e| e.to_string())?;
    let a: Reply = serde_json::from_str(&s).map_err(|e| format!("from_str({}) failed: {}", s, e))?;
    let mut want = r.clone();
    want.parameters = None;
    if a != want {
        return Err(format!("from_str(to_string(v)) = {:?} != {:?} (modulo null parameters)", a, want));
    }
    serde_json::to_value(r).map_err(|e| e.to_string())
}

pub fn replay(_ctx: &Ctx, w: &Value) {
    println!("C17 witnesses are self-contained values; re-run `bin/check C17 quick` — the enumeration is deterministic. Witness: {}", w);
}
