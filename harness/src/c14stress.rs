//! C14, uncontrolled half: the real pool (through the hook's `verif::Pool`, no probe callback
//! installed) under OS scheduling.  The controlled scheduler decides interleavings at probe
//! points only; a window *between* two probes (e.g. between a job's end and the busy-counter
//! update) can only be entered by real threads racing.  Each history races job ends against
//! submissions without waiting in between, then compares the pool with the sequential model at
//! a quiet point: jobs in service == min(outstanding, max).
use crate::core::*;
use serde_json::json;
use std::sync::atomic::{AtomicBool, AtomicUsize, Ordering};
use std::sync::Arc;
use std::time::{Duration, Instant};
use varlink::verif::Pool;

fn wait_until<F: Fn() -> bool>(f: F, limit: Duration) -> bool {
    let t0 = Instant::now();
    let mut n = 0u32;
    while !f() {
        n += 1;
        if n < 2000 {
            std::hint::spin_loop();
        } else {
            if t0.elapsed() > limit {
                return false;
            }
            std::thread::sleep(Duration::from_micros(50));
        }
    }
    true
}

struct Job {
    id: usize,
    release: Arc<AtomicBool>,
}

/// One history. Returns Err(message) on a mismatch at a quiet point.
fn history(rng: &mut Rng, initial: usize, max: usize, with_panics: bool, abort: Arc<AtomicBool>, log: &mut Vec<String>) -> Result<(usize, usize, usize), String> {
    let mut pool = Pool::new(initial, max);
    let in_service = Arc::new(AtomicUsize::new(0));
    let mut outstanding: Vec<Job> = Vec::new();
    let mut next_id = 0usize;
    let mut races = 0usize;
    let mut panics = 0usize;
    let started_total = Arc::new(AtomicUsize::new(0));
    let mut submitted_total = 0usize;
    let mut quiet_points = 0usize;
    let patience = Duration::from_secs(10);
    let phases = rng.range(2, 5);
    let mut verdict = Ok(());
    'outer: for _ in 0..phases {
        let burst = rng.range(1, 4);
        let mut last_was_finish = false;
        for _ in 0..burst {
            if with_panics && rng.chance(1, 6) {
                // a connection handler that panics (a fault in interface code): the connection
                // is gone at once, so it never counts as outstanding; the pool must be none the
                // worse for it
                let st2 = started_total.clone();
                submitted_total += 1;
                pool.execute(move || {
                    st2.fetch_add(1, Ordering::SeqCst);
                    panic!("handler panic injected by the C14 stress workload")
                });
                log.push("submit a job that panics".into());
                panics += 1;
                // let it happen before the next operation half of the time
                if rng.chance(1, 2) {
                    std::thread::sleep(Duration::from_micros(200));
                }
                continue;
            }
            let finish = !outstanding.is_empty() && rng.chance(1, 2);
            if finish {
                // (a job told to end before it was dequeued simply runs and ends at once later)
                let j = outstanding.swap_remove(rng.below(outstanding.len()));
                j.release.store(true, Ordering::SeqCst);
                log.push(format!("finish #{}", j.id));
                last_was_finish = true;
            } else {
                let release = Arc::new(AtomicBool::new(false));
                let (r2, s2, a2, st2) = (release.clone(), in_service.clone(), abort.clone(), started_total.clone());
                submitted_total += 1;
                let id = next_id;
                next_id += 1;
                pool.execute(move || {
                    st2.fetch_add(1, Ordering::SeqCst);
                    s2.fetch_add(1, Ordering::SeqCst);
                    // `abort`: the history was given up by its watchdog; its jobs must not keep spinning
                    while !r2.load(Ordering::Relaxed) && !a2.load(Ordering::Relaxed) {
                        std::hint::spin_loop();
                        std::thread::yield_now();
                    }
                    s2.fetch_sub(1, Ordering::SeqCst);
                });
                outstanding.push(Job { id, release });
                log.push(format!("submit #{}", id));
                if last_was_finish {
                    races += 1;
                }
                last_was_finish = false;
            }
            // the gap between two operations is where a finishing worker meets the acceptor
            match rng.below(8) {
                0 => {
                    let until = Instant::now() + Duration::from_micros(rng.below(100) as u64);
                    while Instant::now() < until {
                        std::hint::spin_loop();
                    }
                }
                1 => {
                    for _ in 0..rng.below(400) {
                        std::hint::spin_loop();
                    }
                }
                _ => {
                    for _ in 0..rng.below(48) {
                        std::hint::spin_loop();
                    }
                }
            }
        }
        let want = outstanding.len().min(max);
        quiet_points += 1;
        if !wait_until(|| in_service.load(Ordering::SeqCst) == want, patience) {
            // once more, generously: a stranded job never starts, a slow machine eventually does
            if !wait_until(|| in_service.load(Ordering::SeqCst) == want, patience) {
                verdict = Err(format!(
                    "{} jobs outstanding, pool (initial {}, max {}) serves {} of them 20 s after the last operation (expected {}); {} worker threads exist, the pool's busy counter says {}",
                    outstanding.len(),
                    initial,
                    max,
                    in_service.load(Ordering::SeqCst),
                    want,
                    pool.workers(),
                    pool.num_busy()
                ));
                break 'outer;
            }
        }
        // the pool's own account of its load (what listen()'s idle timeout looks at) must settle
        // at the number of jobs it was given and has not finished
        // (only when nothing is waiting in the queue: queued jobs count as busy by design)
        if started_total.load(Ordering::SeqCst) == submitted_total && !wait_until(|| pool.num_busy() == in_service.load(Ordering::SeqCst), Duration::from_secs(10)) {
            verdict = Err(format!("every submitted job has been dequeued and {} are in service, but the pool's busy counter settled at {} (initial {}, max {})", in_service.load(Ordering::SeqCst), pool.num_busy(), initial, max));
            break 'outer;
        }
        if pool.workers() > max.max(1) {
            verdict = Err(format!("{} worker threads exist, max is {}", pool.workers(), max));
            break 'outer;
        }
        // let finishing workers go idle before the next burst half of the time (otherwise the
        // next burst races with them as well)
        if rng.chance(1, 2) {
            let _ = wait_until(|| pool.num_busy() <= outstanding.len(), Duration::from_millis(50));
        }
    }
    for j in &outstanding {
        j.release.store(true, Ordering::SeqCst);
    }
    // dropping the pool is what listen() does when it returns: it must not blow up either
    if std::panic::catch_unwind(std::panic::AssertUnwindSafe(move || drop(pool))).is_err() && verdict.is_ok() {
        verdict = Err("dropping the pool (what listen() does when it returns) panicked".into());
    }
    verdict.map(|_| (races, quiet_points, panics))
}

/// Tight hand-overs: the only free worker is just finishing a job when the next one is submitted,
/// with the submission instant swept across the worker's way back to the queue (a wake-up lost
/// there leaves a queued job beside an idle worker).  Returns hand-overs done, or Err.
fn handovers(rng: &mut Rng, initial: usize, max: usize, pinned: usize, until: Instant) -> Result<usize, String> {
    let mut pool = Pool::new(initial, max);
    let started = Arc::new(AtomicUsize::new(0));
    let hold = Arc::new(AtomicBool::new(false));
    // `pinned` long-lived jobs occupy all workers but one
    for _ in 0..pinned {
        let (s2, h2) = (started.clone(), hold.clone());
        pool.execute(move || {
            s2.fetch_add(1, Ordering::SeqCst);
            while !h2.load(Ordering::Relaxed) {
                std::thread::sleep(Duration::from_micros(200));
            }
        });
    }
    if !wait_until(|| started.load(Ordering::SeqCst) == pinned, Duration::from_secs(20)) {
        hold.store(true, Ordering::SeqCst);
        return Err(format!("only {} of {} long-lived jobs started (initial {}, max {})", started.load(Ordering::SeqCst), pinned, initial, max));
    }
    let mut n = 0usize;
    let mut verdict = Ok(());
    let mut prev_release: Option<Arc<AtomicBool>> = None;
    while Instant::now() < until {
        let release = Arc::new(AtomicBool::new(false));
        let begun = Arc::new(AtomicBool::new(false));
        let (r2, b2) = (release.clone(), begun.clone());
        // end the previous short job and submit the next one `spins` later
        if let Some(p) = prev_release.take() {
            p.store(true, Ordering::SeqCst);
            // sweep the submission instant across the worker's way back to the queue (a few
            // microseconds): mostly 0-2000 spins, sometimes much shorter or longer
            let span = match n % 8 {
                0 => 20_000,
                1 | 2 => 300,
                _ => 2_000,
            };
            for _ in 0..rng.below(span) {
                std::hint::spin_loop();
            }
        }
        pool.execute(move || {
            b2.store(true, Ordering::SeqCst);
            while !r2.load(Ordering::Relaxed) {
                std::hint::spin_loop();
            }
        });
        if !wait_until(|| begun.load(Ordering::SeqCst), Duration::from_secs(10)) && !wait_until(|| begun.load(Ordering::SeqCst), Duration::from_secs(10)) {
            verdict = Err(format!(
                "hand-over #{}: a job queued while the only free worker was finishing the previous one has not started 20 s later, with {} of max {} in service; {} worker threads, busy counter {}",
                n + 1,
                pinned,
                max,
                pool.workers(),
                pool.num_busy()
            ));
            release.store(true, Ordering::SeqCst);
            break;
        }
        prev_release = Some(release);
        n += 1;
    }
    if let Some(p) = prev_release.take() {
        p.store(true, Ordering::SeqCst);
    }
    hold.store(true, Ordering::SeqCst);
    let _ = std::panic::catch_unwind(std::panic::AssertUnwindSafe(move || drop(pool)));
    verdict.map(|_| n)
}

pub fn run(ctx: &Ctx) {
    let budget = Duration::from_secs(ctx.tier.pick(5, 180));
    let nthreads = 4;
    let t0 = Instant::now();
    // injected handler panics are part of the workload: keep their messages off the terminal
    let prev_hook = std::panic::take_hook();
    std::panic::set_hook(Box::new(move |info| {
        let msg = info.payload().downcast_ref::<&str>().map(|s| s.to_string()).or_else(|| info.payload().downcast_ref::<String>().cloned()).unwrap_or_default();
        if !msg.contains("injected by the C14 stress workload") {
            eprintln!("panic: {} at {:?}", msg, info.location());
        }
    }));
    par(nthreads, |w| {
        let mut rng = Rng::lane(ctx.seed, 5200 + w as u64);
        let mut n = 0usize;
        while t0.elapsed() < budget && ctx.violations() < 3 {
            let (initial, max) = *rng.pick(&[(1usize, 4usize), (1, 2), (1, 3), (2, 4), (2, 2), (2, 3), (1, 1)]);
            let mut log = Vec::new();
            let seed_state = (w, n);
            let with_panics = n % 3 == 2;
            // the history runs in its own thread under a watchdog: a submission that never
            // returns (an acceptor blocked inside the pool) must end the history, not the check
            let (tx, rx) = std::sync::mpsc::channel();
            let mut hr = Rng::lane(rng.next(), 1);
            let hlog = Arc::new(std::sync::Mutex::new(Vec::<String>::new()));
            let hlog2 = hlog.clone();
            let abort = Arc::new(AtomicBool::new(false));
            let abort2 = abort.clone();
            let _ = std::thread::Builder::new().name("c14-history".into()).spawn(move || {
                let mut l = Vec::new();
                let r = history(&mut hr, initial, max, with_panics, abort2, &mut l);
                *hlog2.lock().unwrap() = l;
                let _ = tx.send(r);
            });
            let outcome = match rx.recv_timeout(Duration::from_secs(90)) {
                Ok(r) => r,
                Err(_) => {
                    abort.store(true, Ordering::SeqCst);
                    Err("the history did not finish within 90 s: a submission (ThreadPool::execute, i.e. the acceptor) or the pool's drop is blocked".to_string())
                }
            };
            log = hlog.lock().unwrap().clone();
            match outcome {
                Ok((races, qp, panics)) => {
                    ctx.count("stress_handler_panics_injected", panics as u64);
                    ctx.case(if races > 0 { Some(hash_of(&("stress", initial, max, &log))) } else { None });
                    ctx.count("stress_histories", 1);
                    ctx.count("stress_submissions_racing_a_job_end", races as u64);
                    ctx.count("stress_quiet_points_compared", qp as u64);
                }
                Err(m) => {
                    ctx.case(Some(hash_of(&("stress", initial, max, &log))));
                    ctx.violation(
                        if log.iter().any(|l| l.contains("panics")) { "c14:stress:in-service-differs-from-min-outstanding-max:after-handler-panic" } else { "c14:stress:in-service-differs-from-min-outstanding-max" },
                        json!({"engine": "c14-stress", "initial": initial, "max": max, "lane_and_history": format!("{:?}", seed_state), "operations": log, "message": m}),
                    );
                }
            }
            if n == 0 && w == 0 {
                ctx.sample(json!({"stress_history": log, "initial": initial, "max": max}));
            }
            n += 1;
        }
    });
    let _ = std::panic::take_hook();
    std::panic::set_hook(prev_hook);
    // second half: tight hand-overs, one pool per lane
    let until = Instant::now() + Duration::from_secs(ctx.tier.pick(10, 120));
    par(nthreads, |w| {
        let mut rng = Rng::lane(ctx.seed, 5300 + w as u64);
        let (initial, max, pinned) = [(1usize, 1usize, 0usize), (1, 3, 2), (2, 2, 1), (1, 2, 1)][w % 4];
        match handovers(&mut rng, initial, max, pinned, until) {
            Ok(n) => {
                ctx.case(Some(hash_of(&("handover", initial, max, pinned, w))));
                ctx.count("stress_tight_handovers", n as u64);
            }
            Err(m) => ctx.violation("c14:stress:job-stranded-at-hand-over", json!({"engine": "c14-stress", "initial": initial, "max": max, "long_lived_jobs": pinned, "message": m})),
        }
    });
}
