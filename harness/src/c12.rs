//! C12: parsing is total and its diagnostics point into the input.
use crate::core::*;
use crate::idl::*;
use serde_json::{json, Value};
use std::convert::TryFrom;
use std::io::{BufRead, Write};
use std::time::{Duration, Instant};
use varlink_parser::IDL;

/// Judge one input in-process (used by the worker processes). Returns a short outcome class
/// or Err((sig, message)).
fn judge_one(input: &str) -> Result<&'static str, (String, String)> {
    let inp = input.to_string();
    let r = std::panic::catch_unwind(move || match IDL::try_from(inp.as_str()) {
        Ok(d) => {
            // every accepted definition can be rendered too
            let _ = d.to_string();
            Ok("ok")
        }
        Err(e) => {
            let shown = e.to_string();
            match &e {
                varlink_parser::Error::Parse { line, column } => {
                    let lines: Vec<&str> = inp.split('\n').collect();
                    if !lines.iter().any(|l| l == line) {
                        return Err(("c12:error-line-not-a-line-of-the-input".to_string(), format!("reported line {:?} is not one of the {} lines of the input", line, lines.len())));
                    }
                    let n = line.chars().count();
                    if *column < 1 || *column > n + 1 {
                        return Err(("c12:error-column-outside-line".to_string(), format!("column {} outside [1, {}] of line {:?}", column, n + 1, line)));
                    }
                    if !shown.contains('^') {
                        return Err(("c12:error-display".to_string(), format!("rendered error has no caret: {:?}", shown)));
                    }
                    Ok("parse-error")
                }
                varlink_parser::Error::Idl(_) => Ok("idl-error"),
            }
        }
    });
    match r {
        Ok(x) => x,
        Err(p) => {
            let msg = p.downcast_ref::<String>().cloned().or_else(|| p.downcast_ref::<&str>().map(|s| s.to_string())).unwrap_or_default();
            Err(("c12:panic".into(), format!("parser panicked: {}", msg)))
        }
    }
}

/// `vh c12worker`: reads hex-encoded inputs from stdin (one per line), prints one result line
/// each: `R <class>` or `V <sig>\t<message>`. Runs each input in a 2 MiB-stack thread; a stack
/// overflow kills this process, which the parent observes.
pub fn worker_main() -> i32 {
    let stdin = std::io::stdin();
    let stdout = std::io::stdout();
    for line in stdin.lock().lines() {
        let line = match line {
            Ok(l) => l,
            Err(_) => break,
        };
        let bytes = unhex(line.trim());
        let input = String::from_utf8_lossy(&bytes).to_string();
        let h = std::thread::Builder::new().stack_size(2 * 1024 * 1024).spawn(move || judge_one(&input)).unwrap();
        let res = h.join();
        let mut o = stdout.lock();
        match res {
            Ok(Ok(c)) => writeln!(o, "R {}", c).unwrap(),
            Ok(Err((sig, m))) => writeln!(o, "V {}\t{}", sig, m.replace('\n', "\\n")).unwrap(),
            Err(_) => writeln!(o, "V c12:panic\tworker thread panicked").unwrap(),
        }
        o.flush().unwrap();
    }
    0
}

struct Worker {
    child: std::process::Child,
    stdin: std::process::ChildStdin,
    rx: std::sync::mpsc::Receiver<String>,
}

fn spawn_worker() -> Worker {
    let exe = std::env::current_exe().unwrap();
    let mut child = std::process::Command::new(exe).arg("c12worker").arg("quick").stdin(std::process::Stdio::piped()).stdout(std::process::Stdio::piped()).stderr(std::process::Stdio::null()).spawn().unwrap();
    let stdin = child.stdin.take().unwrap();
    let stdout = child.stdout.take().unwrap();
    let (tx, rx) = std::sync::mpsc::channel();
    std::thread::spawn(move || {
        for l in std::io::BufReader::new(stdout).lines().map_while(Result::ok) {
            if tx.send(l).is_err() {
                break;
            }
        }
    });
    Worker { child, stdin, rx }
}

enum Out {
    Class(String),
    Violation(String, String),
    Died(String),
    Timeout,
}

fn ask(w: &mut Worker, input: &str, timeout: Duration) -> Out {
    if writeln!(w.stdin, "{}", hex(input.as_bytes())).is_err() || w.stdin.flush().is_err() {
        let st = w.child.wait().map(|s| format!("{:?}", s)).unwrap_or_default();
        return Out::Died(st);
    }
    match w.rx.recv_timeout(timeout) {
        Ok(l) => {
            if let Some(c) = l.strip_prefix("R ") {
                Out::Class(c.to_string())
            } else if let Some(v) = l.strip_prefix("V ") {
                let (s, m) = v.split_once('\t').unwrap_or((v, ""));
                Out::Violation(s.to_string(), m.to_string())
            } else {
                Out::Died(format!("unexpected line {:?}", l))
            }
        }
        Err(std::sync::mpsc::RecvTimeoutError::Timeout) => Out::Timeout,
        Err(_) => {
            let st = w.child.wait().map(|s| format!("{:?}", s)).unwrap_or_default();
            Out::Died(st)
        }
    }
}

fn nesting_depth(s: &str) -> usize {
    let (mut d, mut m) = (0usize, 0usize);
    for c in s.chars() {
        match c {
            '(' => {
                d += 1;
                m = m.max(d);
            }
            ')' => d = d.saturating_sub(1),
            _ => {}
        }
    }
    // prefix constructors nest without parentheses
    m.max(s.matches("[]").count().min(400) / 2)
}

fn gen_input(rng: &mut Rng, corpus: &[String], k: usize) -> (String, &'static str) {
    match k % 8 {
        0 => {
            // random Unicode
            let n = rng.below(80);
            let pool: Vec<char> = "interface method type error ()->:,?[]string int#\n\r\t \u{2028}\u{2029}\u{a0}aZ9_-.é日😀\u{0}\u{1b}\u{feff}".chars().collect();
            ((0..n).map(|_| if rng.chance(1, 10) { char::from_u32(rng.below(0x10ffff) as u32).unwrap_or('x') } else { *rng.pick(&pool) }).collect(), "random-unicode")
        }
        1 | 2 => {
            // byte-level mutation of a valid text, re-validated as UTF-8 (lossy)
            let t = rng.pick(corpus).as_bytes().to_vec();
            let mut b = t.clone();
            for _ in 0..rng.range(1, 4) {
                if b.is_empty() {
                    break;
                }
                let p = rng.below(b.len());
                match rng.below(4) {
                    0 => b[p] = (rng.next() & 0xff) as u8,
                    1 => {
                        b.remove(p);
                    }
                    2 => b.insert(p, (rng.next() & 0x7f) as u8),
                    _ => {
                        let q = rng.below(b.len());
                        b.swap(p, q);
                    }
                }
            }
            (String::from_utf8_lossy(&b).to_string(), "byte-mutation")
        }
        3 => {
            // prefix of a corpus definition (char boundary)
            let t = rng.pick(corpus);
            let cs: Vec<char> = t.chars().collect();
            let n = rng.below(cs.len() + 1);
            (cs[..n].iter().collect(), "prefix")
        }
        4 => {
            // line-ending conventions applied uniformly or mixed
            let t = rng.pick(corpus);
            let mixed = rng.chance(1, 2);
            let e = rng.pick(EOLS).to_string();
            let mut out = String::new();
            for c in t.chars() {
                if c == '\n' {
                    if mixed {
                        out.push_str(rng.pick_str(EOLS));
                    } else {
                        out.push_str(&e);
                    }
                } else {
                    out.push(c);
                }
            }
            // and break it somewhere so that an error location is computed
            if rng.chance(2, 3) {
                let cs: Vec<char> = out.chars().collect();
                let p = rng.below(cs.len().max(1));
                let mut o2: String = cs[..p].iter().collect();
                o2.push_str(rng.pick_str(&["§", "((", ")", "->", "\u{0}", "é"]));
                o2.extend(cs[p..].iter());
                out = o2;
            }
            (out, "line-endings")
        }
        5 => {
            // deep nesting up to depth 200
            let d = rng.range(1, 200);
            let kind = rng.below(5);
            let (open, close): (String, String) = match kind {
                0 => ("(a:".repeat(d), ")".repeat(d)),
                1 => ("[]".repeat(d), String::new()),
                2 => ("[string]".repeat(d), String::new()),
                3 => ("?[]".repeat(d), String::new()),
                _ => ("(a: [](b: ?".repeat(d / 2 + 1), "))".repeat(d / 2 + 1)),
            };
            let broken = rng.chance(1, 3);
            let t = format!("interface a.b\ntype T (x: {}int{}){}", open, close, if broken { "\n)" } else { "" });
            (t, "deep-nesting")
        }
        6 => {
            let idl = gen_idl(rng, &GenCfg::parser());
            let toks = Deco { rng, level: 2 }.render(&idl);
            (mutate_tokens(&toks, rng).0, "token-mutation")
        }
        _ => {
            // pathological repetition (backtracking stress), bounded to 64 KiB
            let unit = *rng.pick(&["(", "(a", "(a:", "# c\n", "type T (a: int)\n", "?", "[string]", "(a,", "method M(a:(b:(c:", " \n", "->", "interface a.b\n"]);
            let n = rng.range(1, 3000.min(60_000 / unit.len()));
            (format!("interface a.b\ntype T {}", unit.repeat(n)), "repetition")
        }
    }
}

/// Definitions with one very long line: a long member name, a long field list, long blank runs
/// or a long comment, broken (or not) at the far end of that line.
fn long_lines(thorough: bool) -> Vec<String> {
    let mut sizes = vec![65_400usize, 65_520, 65_535, 65_536, 65_600, 70_000, 131_072];
    if thorough {
        sizes.extend([65_534, 65_537, 99_999, 200_000, 300_000, 1_000_000]);
    }
    let mut out = Vec::new();
    for n in sizes {
        for tail in ["", " %", "\n§"] {
            out.push(format!("interface a.b\nmethod M(a{}: int) -> (){}", "a".repeat(n), tail));
            out.push(format!("interface a.b\nmethod M(){}-> (){}", " ".repeat(n), tail));
            out.push(format!("interface a.b{}{}\nmethod M() -> ()", "\t".repeat(n), if tail.is_empty() { "" } else { "§" }));
            out.push(format!("interface a.b\n# {}\nmethod M() -> (){}", "é".repeat(n / 2), tail));
            if n <= 131_072 {
                let mut fields = String::new();
                let mut i = 0;
                while fields.len() < n {
                    fields.push_str(&format!("f{}: int, ", i));
                    i += 1;
                }
                out.push(format!("interface a.b\ntype T ({}last: int){}", fields, tail));
                out.push(format!("interface a.b\ntype T ({}last: int{}", fields, tail));
            }
        }
    }
    out
}

pub fn main(ctx: &Ctx) -> i32 {
    ctx.set_rule("inputs: random Unicode strings; byte-level mutations of valid definitions; every/random prefixes of corpus definitions (the repository's .varlink files + generated ones); all five line-ending conventions uniform and mixed with an injected error; nesting by (a: / [] / [string] / ?[] to depth 200; token mutations; pathological repetitions up to 64 KiB; single lines of 65 400 to 131 072 (thorough: 1 000 000) columns — long name, long field list, long blank run, long comment — intact or broken at the far end; each parsed in a worker process on a 2 MiB-stack thread under catch_unwind with a 10 s watchdog; distinct = (input hash); non-trivial = outcome is an error, or nesting >= 8");
    ctx.assume("termination is bounded: an input that exceeds 10 s is re-run alone up to three times with a 60 s limit; only a consistent overrun is a violation, a single expiry is inconclusive");
    // corpus
    let mut corpus: Vec<String> = Vec::new();
    let repo = std::env::var("VERIF_REPO").unwrap_or_else(|_| "/repo".into());
    for rel in ["varlink-certification/src/org.varlink.certification.varlink", "examples/ping/src/org.example.ping.varlink", "examples/more/src/org.example.more.varlink", "varlink_stdinterfaces/src/org.varlink.resolver.varlink", "varlink_generator/tests/org.example.complex.varlink", "varlink-cli/tests/org.example.complex.varlink"] {
        if let Ok(s) = std::fs::read_to_string(format!("{}/{}", repo, rel)) {
            corpus.push(s);
        }
    }
    ctx.count("corpus_files_from_repo", corpus.len() as u64);
    let mut crng = Rng::new(ctx.seed ^ 12);
    for i in 0..30 {
        let idl = gen_idl(&mut crng, &GenCfg::parser());
        corpus.push(render(&idl, &mut crng, i % 3));
    }
    let n = ctx.tier.pick(200_000usize, 10_000_000usize);
    let nw = workers();
    par(nw, |w| {
        let mut rng = Rng::lane(ctx.seed, 1250 + w as u64);
        let mut wk = spawn_worker();
        // every prefix of the (short) repository definitions, once, split across workers
        let mut inputs_done = 0usize;
        let mut run = |input: String, class: &'static str, rng: &mut Rng, wk: &mut Worker| {
            let out = ask(wk, &input, Duration::from_secs(10));
            let h = hash_of(&input);
            let depth = nesting_depth(&input);
            ctx.count(&format!("inputs_{}", class), 1);
            match out {
                Out::Class(c) => {
                    ctx.case(if c != "ok" || depth >= 8 { Some(h) } else { None });
                    ctx.count(&format!("outcome_{}", c), 1);
                    if ctx.want_sample() || rng.chance(1, 40_000) {
                        ctx.sample(json!({"class": class, "input": truncate(&input, 300), "outcome": c}));
                    }
                }
                Out::Violation(sig, m) => {
                    ctx.case(Some(h));
                    ctx.violation(&sig, json!({"engine": "c12", "class": class, "input": input, "input_hex": hex(input.as_bytes()), "message": m}));
                }
                Out::Died(st) => {
                    ctx.case(Some(h));
                    ctx.violation("c12:abort", json!({"engine": "c12", "class": class, "input": truncate(&input, 2000), "input_hex": hex(input.as_bytes()), "nesting": depth, "message": format!("the parsing process died ({}) — stack overflow or abort", st)}));
                    *wk = spawn_worker();
                }
                Out::Timeout => {
                    // isolate: fresh worker, 60 s, three times
                    let _ = wk.child.kill();
                    let _ = wk.child.wait();
                    let mut slow = 0;
                    for _ in 0..3 {
                        let mut w2 = spawn_worker();
                        let t0 = Instant::now();
                        if let Out::Timeout = ask(&mut w2, &input, Duration::from_secs(30)) {
                            slow += 1;
                        }
                        let _ = (t0, w2.child.kill(), w2.child.wait());
                    }
                    if slow == 3 && input.len() <= 65_536 {
                        ctx.case(Some(h));
                        ctx.violation("c12:does-not-terminate", json!({"engine": "c12", "class": class, "input": truncate(&input, 2000), "input_hex": hex(input.as_bytes()), "message": "no result within 30 s in three isolated runs (fresh process each)"}));
                    } else {
                        ctx.case(None);
                        ctx.inconclusive(json!({"class": class, "why": "10 s watchdog expired once", "slow_reruns": slow, "len": input.len()}));
                    }
                    *wk = spawn_worker();
                }
            }
        };
        // lines longer than 65 535 columns with the syntax error at their far end (the error's
        // column then exceeds what a 16-bit quantity holds)
        for (li, t) in long_lines(ctx.tier.pick(false, true)).into_iter().enumerate() {
            if li % nw == w && ctx.violations() < 3 {
                run(t, "long-line", &mut rng, &mut wk);
                inputs_done += 1;
            }
        }
        for (ci, t) in corpus.iter().enumerate().take(6) {
            let cs: Vec<char> = t.chars().collect();
            let step = ctx.tier.pick(7, 1);
            let mut p = w * step;
            while p <= cs.len() {
                if (p / step) % nw == w && ctx.violations() < 3 {
                    run(cs[..p].iter().collect(), "prefix-exhaustive", &mut rng, &mut wk);
                    inputs_done += 1;
                }
                p += step;
            }
            let _ = ci;
        }
        let per = n / nw;
        for k in 0..per.saturating_sub(inputs_done) {
            // a broken tree can make every other input sit through its watchdogs
            if ctx.violations() >= 3 {
                break;
            }
            let (input, class) = gen_input(&mut rng, &corpus, k);
            if input.len() > 65_536 {
                continue;
            }
            run(input, class, &mut rng, &mut wk);
        }
        let _ = wk.child.kill();
        let _ = wk.child.wait();
    });
    ctx.finish(ctx.tier.pick(100_000, 5_000_000))
}

pub fn replay(ctx: &Ctx, w: &Value) {
    let input = String::from_utf8_lossy(&unhex(w.get("input_hex").and_then(|v| v.as_str()).unwrap_or(""))).to_string();
    let mut wk = spawn_worker();
    match ask(&mut wk, &input, Duration::from_secs(60)) {
        Out::Class(c) => println!("outcome: {}", c),
        Out::Violation(sig, m) => ctx.violation(&sig, json!({"engine": "c12", "input": input, "message": m})),
        Out::Died(st) => ctx.violation("c12:abort", json!({"engine": "c12", "input": truncate(&input, 2000), "message": st})),
        Out::Timeout => ctx.violation("c12:does-not-terminate", json!({"engine": "c12", "input": truncate(&input, 2000), "message": "no result within 60 s"})),
    }
    let _ = wk.child.kill();
}
