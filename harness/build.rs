// Emits the generated half of the request alphabet with the generator of the tree under test.
fn main() {
    varlink_generator::cargo_build("idl/org.verif.gen.varlink");
    println!("cargo:rerun-if-changed=build.rs");
}
