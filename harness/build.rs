// Emits the generated half of the request alphabet with the generator of the tree under test.
use std::io::Write;

/// A definition whose text is hostile to any "normalising" step between the .varlink file and
/// the description a generated interface reports (C03: verbatim): CRLF / CR / U+2028 line ends,
/// tabs, trailing blanks, quotes, backslashes, non-ASCII, and a bare CR as the last byte.
pub const FMT_TEXT: &str = "# fmt: \"quoted\" \\back\\slash\\n r#\"raw\"# {brace} \u{e9}\u{4e16}\u{1f600}\t tab  \r\n#\ttrailing blanks   \r\ninterface org.verif.fmt\r\n\r\n\r\n# CR-only line end follows\rtype T (a: int,\tb: ?string)   \r\n\u{2028}# after U+2028\nmethod  Get( t : T )->( t:T )\r\n\r\nerror Bad ()\r\n#trailing comment, bare CR at end of text\r";

fn main() {
    varlink_generator::cargo_build("idl/org.verif.gen.varlink");
    let out = std::env::var("OUT_DIR").unwrap();
    let p = format!("{}/org.verif.fmt.varlink", out);
    std::fs::File::create(&p).unwrap().write_all(FMT_TEXT.as_bytes()).unwrap();
    varlink_generator::cargo_build(&p);
    println!("cargo:rerun-if-changed=build.rs");
}
